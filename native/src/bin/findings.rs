//! Demonstrations of the recorded / fixed defects on the REAL crate (no verifier involved).
//! Each line printed is `OK <id> ...` or `DEFECT <id> ...`; exit status 1 if any DEFECT.
use multiqueue2::verif_hooks::ledger;
use multiqueue2::*;
use std::sync::mpsc::TrySendError;

fn live() -> usize {
    // number of live allocations made through crate::alloc (sum over the size classes)
    unsafe { ledger::SIZE_HIST.iter().sum::<isize>() as usize }
}

fn main() {
    let mut bad = 0;
    let mut report = |ok: bool, id: &str, what: String| {
        println!("{} {} {}", if ok { "OK" } else { "DEFECT" }, id, what);
        if !ok {
            bad += 1;
        }
    };
    // optional arguments: only the demonstrations whose id starts with one of them
    let only: Vec<String> = std::env::args().skip(1).collect();
    let want = |id: &str| only.is_empty() || only.iter().any(|o| id.starts_with(o.as_str()));

    // F-C13-1: try_send after every receiver is gone
    if want("F-C13-1") {
        let (tx, rx) = mpmc_queue::<u32>(4);
        drop(rx);
        let r = tx.try_send(7);
        let ok = matches!(r, Err(TrySendError::Disconnected(7)));
        report(ok, "F-C13-1", format!("mpmc try_send with no receiver left returned {:?}", r));
        let (tx, rx) = broadcast_queue::<u32>(4);
        drop(rx);
        let r = tx.try_send(7);
        let ok = matches!(r, Err(TrySendError::Disconnected(7)));
        report(ok, "F-C13-1", format!("broadcast try_send with no receiver left returned {:?}", r));
    }

    // F-C17-1/2/3: everything the queue allocated is released when the last handle goes
    unsafe {
        ledger::ON = true;
    }
    if want("F-C17-1") {
        let base = live();
        {
            let (tx, rx) = broadcast_queue::<u64>(4);
            tx.try_send(1).unwrap();
            let rx2 = rx.add_stream();
            let rx3 = rx.clone();
            let _ = rx2.try_recv();
            drop(rx3);
            drop(rx2);
            drop(rx);
            drop(tx);
        }
        let left = live() - base;
        report(left == 0, "F-C17-1..3", format!("{} allocation(s) still live after the last handle of a broadcast queue was dropped", left));
        let base = live();
        {
            let (tx, rx) = mpmc_queue::<u64>(2);
            tx.try_send(1).unwrap();
            drop(rx);
            drop(tx);
        }
        let left = live() - base;
        report(left == 0, "F-C17-1..3", format!("{} allocation(s) still live after the last handle of an mpmc queue was dropped", left));
    }

    // F-C17-4: memory held must not grow with the number of clone/drop + add_stream/drop cycles
    if want("F-C17-4") {
        let (tx, rx) = broadcast_queue::<u64>(4);
        let keep = rx.clone(); // a non-last handle of the stream is dropped below, early
        drop(keep);
        let churn = |cycles: usize| {
            for i in 0..cycles {
                let s = rx.add_stream();
                let c = rx.clone();
                let _ = tx.try_send(i as u64);
                let _ = rx.try_recv();
                let _ = s.try_recv();
                drop(c);
                drop(s);
            }
        };
        churn(200);
        let a = live();
        churn(2000);
        let b = live();
        println!("   size histogram (bytes/8 -> live): {:?}", unsafe { ledger::SIZE_HIST });
        report(b <= a + 64, "F-C17-4", format!("live allocations after 200 cycles: {}, after 2200 cycles: {} (an earlier drop of a non-last handle of the stream)", a, b));
    }
    // F-C14-1: space freed through the DIRECT try_recv of a futures receiver must wake a parked sender
    if want("F-C14-1") {
        use futures::executor::{self, Notify};
        use futures::{Async, AsyncSink, Sink};
        use std::sync::atomic::{AtomicUsize, Ordering};
        use std::sync::Arc;
        struct Flag(AtomicUsize);
        impl Notify for Flag {
            fn notify(&self, _id: usize) {
                self.0.fetch_add(1, Ordering::SeqCst);
            }
        }
        let flag = Arc::new(Flag(AtomicUsize::new(0)));
        let (tx, rx) = mpmc_fut_queue::<u32>(1);
        assert!(tx.try_send(1).is_ok());
        // a sink task that finds the queue full parks itself
        let mut task = executor::spawn(futures::future::poll_fn(|| -> futures::Poll<bool, ()> {
            let mut s = &tx;
            match s.start_send(2) {
                Ok(AsyncSink::Ready) => Ok(Async::Ready(true)),
                Ok(AsyncSink::NotReady(_)) => Ok(Async::NotReady),
                Err(_) => Ok(Async::Ready(false)),
            }
        }));
        let first = task.poll_future_notify(&flag, 0);
        assert!(matches!(first, Ok(Async::NotReady)));
        let got = rx.try_recv(); // direct method frees the slot
        let notified = flag.0.load(Ordering::SeqCst);
        report(got == Ok(1) && notified > 0, "F-C14-1", format!("direct try_recv on a futures receiver returned {:?}; parked sender notified {} time(s)", got, notified));
    }

    // F-C15-1: the direct blocking recv() of a futures receiver on an empty queue must block, not panic
    if want("F-C15-1") {
        let (tx, rx) = mpmc_fut_queue::<u32>(4);
        let h = std::thread::spawn(move || {
            std::panic::catch_unwind(std::panic::AssertUnwindSafe(|| rx.recv())).map_err(|_| ())
        });
        std::thread::sleep(std::time::Duration::from_millis(100));
        let _ = tx.try_send(5);
        let r = h.join().unwrap();
        report(matches!(r, Ok(Ok(5))), "F-C15-1", format!("MPMCFutReceiver::recv() on an empty queue with a live sender: {:?}", r.map_err(|_| "PANICKED")));
    }

    // F-C15-2: poll on a fresh, never-wrapped, empty queue must return NotReady (not spin inside the call)
    if want("F-C15-2") {
        use futures::executor::{self, Notify};
        use futures::Stream;
        use std::sync::mpsc::channel;
        struct Nop;
        impl Notify for Nop {
            fn notify(&self, _id: usize) {}
        }
        let (tx, rx) = mpmc_fut_queue::<u32>(4);
        let (done_tx, done_rx) = channel();
        std::thread::spawn(move || {
            let mut task = executor::spawn(rx);
            let r = task.poll_stream_notify(&std::sync::Arc::new(Nop), 0);
            let _ = done_tx.send(format!("{:?}", r));
        });
        let r = done_rx.recv_timeout(std::time::Duration::from_secs(3));
        let ok = matches!(&r, Ok(s) if s.contains("NotReady"));
        report(ok, "F-C15-2", format!("poll on a fresh empty futures queue: {}", match &r { Ok(s) => s.clone(), Err(_) => "did not return within 3 s (busy-waits inside the call)".to_string() }));
        // release the spinning thread so that the process can exit cleanly
        let _ = tx.try_send(1);
        std::thread::sleep(std::time::Duration::from_millis(50));
    }

    // F-C08-2: YieldingWait with a zero yield-spin count must still notice the value
    if want("F-C08-2") {
        use std::sync::mpsc::channel;
        let (tx, rx) = broadcast_queue_with::<u32, wait::YieldingWait>(4, wait::YieldingWait::with_spins(0, 0));
        let (done_tx, done_rx) = channel();
        std::thread::spawn(move || {
            let r = rx.recv();
            let _ = done_tx.send(r);
        });
        std::thread::sleep(std::time::Duration::from_millis(100));
        tx.try_send(9).unwrap();
        let r = done_rx.recv_timeout(std::time::Duration::from_secs(3));
        report(matches!(r, Ok(Ok(9))), "F-C08-2", format!("recv under YieldingWait::with_spins(0, 0) after a value was sent: {}", match r { Ok(v) => format!("{:?}", v), Err(_) => "still blocked after 3 s".to_string() }));
    }
    // F-C08-1: shared stream, blocking recv: a sibling takes the value that arrives between the failed
    // attempt and the moment the sleeper reads its position; the sleeper then watches the OLD slot for the
    // NEW count and stays blocked although the next value (which only it can still take) is in the queue.
    // Real threads, real operations; thread A is suspended just before its 6th shared-memory operation of
    // recv() (the `load_count` after the failed try_recv) by the schedule hook of the atomic shim.
    if want("F-C08-1") {
        use multiqueue2::verif_hooks::sched;
        use std::sync::mpsc::channel;
        let (tx, rx_a) = mpmc_queue_with::<u64, wait::BlockingWait>(4, wait::BlockingWait::with_spins(0, 0));
        // lap the ring once so that every slot carries a real count (not the never-written marker)
        for i in 0..4 {
            tx.try_send(i).unwrap();
            assert_eq!(rx_a.try_recv(), Ok(i));
        }
        let rx_b = rx_a.clone();
        sched::pause_thread_at(7, 6);
        let (done_tx, done_rx) = channel();
        let h = std::thread::spawn(move || {
            sched::enter(7);
            let r = rx_a.recv();
            let _ = done_tx.send(r);
        });
        sched::wait_until_paused();
        // A has seen "empty at position 4" and is about to re-read its position
        tx.try_send(100).unwrap();
        let b_got = rx_b.try_recv(); // the sibling takes value #4 and leaves
        drop(rx_b);
        tx.try_send(101).unwrap(); // value #5: only A can take it now
        sched::resume();
        let r = done_rx.recv_timeout(std::time::Duration::from_secs(3));
        let ok = matches!(r, Ok(Ok(101)));
        report(ok && b_got == Ok(100), "F-C08-1", format!("sibling took {:?}; blocked receiver with value 101 waiting for it: {}", b_got, match &r { Ok(v) => format!("returned {:?}", v), Err(_) => "still blocked after 3 s (watches the old slot for the new count)".to_string() }));
        // let the stuck thread go so that the process can exit: two more values lap the watched slot
        if !ok {
            for v in 0..8u64 {
                let _ = tx.try_send(200 + v);
            }
            drop(tx);
        }
        let _ = h.join();
    }
    // F-C07-1: shared stream: a consumer that loaded its position, was overtaken by a sibling and lapped by
    // the producer, and then finds every sender gone, reports the end although accepted values are still
    // undelivered to its stream.  Real threads; thread A is suspended just before its 5th shared-memory
    // operation of try_recv (the first look at the slot's tag).
    if want("F-C07-1") {
        use multiqueue2::verif_hooks::sched;
        use std::sync::mpsc::channel;
        use std::sync::mpsc::TryRecvError;
        let (tx, rx_a) = mpmc_queue::<u64>(2);
        for i in 0..4 {
            tx.try_send(i).unwrap();
            assert_eq!(rx_a.try_recv(), Ok(i));
        }
        tx.try_send(10).unwrap(); // count 4, slot 0
        let rx_b = rx_a.clone();
        sched::pause_thread_at(9, 5);
        let (done_tx, done_rx) = channel();
        let h = std::thread::spawn(move || {
            sched::enter(9);
            let r = rx_a.try_recv();
            let _ = done_tx.send((r, rx_a));
        });
        sched::wait_until_paused();
        assert_eq!(rx_b.try_recv(), Ok(10)); // the sibling takes count 4
        tx.try_send(11).unwrap(); // count 5, slot 1
        tx.try_send(12).unwrap(); // count 6, slot 0: overwrites the slot A is about to look at
        drop(tx); // the last sender leaves
        sched::resume();
        let (r, rx_a) = done_rx.recv_timeout(std::time::Duration::from_secs(5)).expect("try_recv returns");
        let _ = h.join();
        let later = rx_a.try_recv();
        let ok = r != Err(TryRecvError::Disconnected);
        report(ok, "F-C07-1", format!("consumer overtaken by a sibling and lapped, last sender gone: try_recv returned {:?} while values 11 and 12 were still undelivered (its next call returns {:?})", r, later));
        drop(rx_b);
    }

    // F-C14-2: a sink task parked because the slot it needs is PINNED by a consumer that is mid-clone must be
    // woken when that consumer unpins -- also when the consumer loses its item to a sibling and its poll
    // ends in NotReady (no value received, but the obstacle is gone).  Public API only; the payload's Clone
    // is held open by the test.
    if want("F-C14-2") {
        use futures::executor::{self, Notify};
        use futures::{Async, AsyncSink};
        use std::sync::atomic::{AtomicBool, AtomicUsize, Ordering::SeqCst};
        use std::sync::Arc;
        struct Wakeups(AtomicUsize);
        impl Notify for Wakeups {
            fn notify(&self, _id: usize) {
                self.0.fetch_add(1, SeqCst);
            }
        }
        struct Gate {
            armed: AtomicBool,
            entered: AtomicBool,
            release: AtomicBool,
        }
        struct Payload {
            v: usize,
            gate: Arc<Gate>,
        }
        impl Clone for Payload {
            fn clone(&self) -> Payload {
                if self.gate.armed.swap(false, SeqCst) {
                    self.gate.entered.store(true, SeqCst);
                    while !self.gate.release.load(SeqCst) {
                        std::thread::yield_now();
                    }
                }
                Payload { v: self.v, gate: self.gate.clone() }
            }
        }
        let gate = Arc::new(Gate { armed: AtomicBool::new(false), entered: AtomicBool::new(false), release: AtomicBool::new(false) });
        let mk = |v: usize| Payload { v, gate: gate.clone() };
        let (tx, rx_a) = broadcast_fut_queue_with::<Payload>(2, 0, 0);
        let rx_b = rx_a.clone();
        for i in 0..2 {
            assert!(tx.try_send(mk(i)).is_ok());
        }
        gate.armed.store(true, SeqCst);
        let a_wake = Arc::new(Wakeups(AtomicUsize::new(0)));
        let a_wake2 = a_wake.clone();
        let a = std::thread::spawn(move || {
            // consumer A polls its stream inside a task; the clone of value 0 is held open (slot 0 pinned)
            let mut task = executor::spawn(rx_a);
            let r = task.poll_stream_notify(&a_wake2, 1);
            (matches!(r, Ok(Async::NotReady)), task)
        });
        while !gate.entered.load(SeqCst) {
            std::thread::yield_now();
        }
        for i in 0..2 {
            match rx_b.try_recv() {
                Ok(p) => assert_eq!(p.v, i),
                Err(e) => panic!("consumer B could not take value {}: {:?}", i, e),
            }
        }
        let wakeups = Arc::new(Wakeups(AtomicUsize::new(0)));
        let mut sink_task = executor::spawn(tx);
        let parked = matches!(sink_task.start_send_notify(mk(2), &wakeups, 0), Ok(AsyncSink::NotReady(_)));
        gate.release.store(true, SeqCst);
        let (a_not_ready, _task) = a.join().unwrap();
        let seen = wakeups.0.load(SeqCst);
        let now_ok = matches!(sink_task.start_send_notify(mk(2), &wakeups, 0), Ok(AsyncSink::Ready));
        report(!(parked && now_ok) || seen >= 1, "F-C14-2", format!("sink parked on a pinned slot: {}; pinning consumer's poll ended NotReady: {}; the send can go through now: {}; wake-ups the parked sink task got: {}", parked, a_not_ready, now_ok, seen));
        drop(rx_b);
    }

    // F-C10-1: add_stream on a SHARED parent stream: the parent's position is read first and the new
    // stream list is published later; in between a sibling consumer of the parent and the producer can
    // move on by more than the ring size.  Real threads; thread A is suspended just before the
    // compare-exchange that publishes the new list (its 4th shared-memory operation of add_stream).
    if want("F-C10-1") {
        use multiqueue2::verif_hooks::sched;
        use std::sync::mpsc::channel;
        let (tx, rx_a) = broadcast_queue::<u64>(2);
        for i in 0..10 {
            tx.try_send(i).unwrap();
            assert_eq!(rx_a.try_recv(), Ok(i));
        }
        let rx_b = rx_a.clone(); // second handle on the parent stream
        sched::pause_thread_at(8, 4);
        let (done_tx, done_rx) = channel();
        let h = std::thread::spawn(move || {
            sched::enter(8);
            let s2 = rx_a.add_stream();
            let _ = done_tx.send((s2, rx_a));
        });
        sched::wait_until_paused();
        let paused_at_cas = sched::PAUSED_KIND.load(std::sync::atomic::Ordering::SeqCst) == 3;
        // while A is inside add_stream: two values through the parent (taken by the sibling), two more sent
        tx.try_send(10).unwrap();
        tx.try_send(11).unwrap();
        assert_eq!(rx_b.try_recv(), Ok(10));
        assert_eq!(rx_b.try_recv(), Ok(11));
        tx.try_send(12).unwrap();
        tx.try_send(13).unwrap();
        sched::resume();
        let (s2, rx_a) = done_rx.recv_timeout(std::time::Duration::from_secs(5)).expect("add_stream returns");
        let _ = h.join();
        // the parent was at 10, 11 or 12 during the call: the new stream must deliver from one of those on
        let first = s2.try_recv();
        // the ring is full for the parent (12, 13 unconsumed): a further send must be refused
        let extra = tx.try_send(14);
        let parent_next = rx_b.try_recv();
        let ok = paused_at_cas && matches!(first, Ok(10) | Ok(11) | Ok(12)) && extra.is_err() && parent_next == Ok(12);
        report(ok, "F-C10-1", format!("(paused at the publishing CAS: {}) new stream first delivers {:?}; send into the full ring returned {:?}; parent stream then delivers {:?} (expected 12)", paused_at_cas, first, extra.map_err(|_| "Full"), parent_next));
        drop(rx_a);
    }
    std::process::exit(if bad > 0 { 1 } else { 0 });
}
