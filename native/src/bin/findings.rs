//! Demonstrations of the recorded / fixed defects on the REAL crate (no verifier involved).
//! Each line printed is `OK <id> ...` or `DEFECT <id> ...`; exit status 1 if any DEFECT.
use multiqueue2::verif_hooks::ledger;
use multiqueue2::*;
use std::sync::mpsc::TrySendError;

fn live() -> usize {
    // number of live allocations made through crate::alloc (sum over the size classes)
    unsafe { ledger::SIZE_HIST.iter().sum::<isize>() as usize }
}

fn main() {
    let mut bad = 0;
    let mut report = |ok: bool, id: &str, what: String| {
        println!("{} {} {}", if ok { "OK" } else { "DEFECT" }, id, what);
        if !ok {
            bad += 1;
        }
    };

    // F-C13-1: try_send after every receiver is gone
    {
        let (tx, rx) = mpmc_queue::<u32>(4);
        drop(rx);
        let r = tx.try_send(7);
        let ok = matches!(r, Err(TrySendError::Disconnected(7)));
        report(ok, "F-C13-1", format!("mpmc try_send with no receiver left returned {:?}", r));
        let (tx, rx) = broadcast_queue::<u32>(4);
        drop(rx);
        let r = tx.try_send(7);
        let ok = matches!(r, Err(TrySendError::Disconnected(7)));
        report(ok, "F-C13-1", format!("broadcast try_send with no receiver left returned {:?}", r));
    }

    // F-C17-1/2/3: everything the queue allocated is released when the last handle goes
    unsafe {
        ledger::ON = true;
    }
    {
        let base = live();
        {
            let (tx, rx) = broadcast_queue::<u64>(4);
            tx.try_send(1).unwrap();
            let rx2 = rx.add_stream();
            let rx3 = rx.clone();
            let _ = rx2.try_recv();
            drop(rx3);
            drop(rx2);
            drop(rx);
            drop(tx);
        }
        let left = live() - base;
        report(left == 0, "F-C17-1..3", format!("{} allocation(s) still live after the last handle of a broadcast queue was dropped", left));
        let base = live();
        {
            let (tx, rx) = mpmc_queue::<u64>(2);
            tx.try_send(1).unwrap();
            drop(rx);
            drop(tx);
        }
        let left = live() - base;
        report(left == 0, "F-C17-1..3", format!("{} allocation(s) still live after the last handle of an mpmc queue was dropped", left));
    }

    // F-C17-4: memory held must not grow with the number of clone/drop + add_stream/drop cycles
    {
        let (tx, rx) = broadcast_queue::<u64>(4);
        let keep = rx.clone(); // a non-last handle of the stream is dropped below, early
        drop(keep);
        let churn = |cycles: usize| {
            for i in 0..cycles {
                let s = rx.add_stream();
                let c = rx.clone();
                let _ = tx.try_send(i as u64);
                let _ = rx.try_recv();
                let _ = s.try_recv();
                drop(c);
                drop(s);
            }
        };
        churn(200);
        let a = live();
        churn(2000);
        let b = live();
        println!("   size histogram (bytes/8 -> live): {:?}", unsafe { ledger::SIZE_HIST });
        report(b <= a + 64, "F-C17-4", format!("live allocations after 200 cycles: {}, after 2200 cycles: {} (an earlier drop of a non-last handle of the stream)", a, b));
    }
    std::process::exit(if bad > 0 { 1 } else { 0 });
}
