//! Native replay of a verifier counterexample against the real crate.
//! usage: replay <harness> <v0> <v1> ...   (values of the harness's nondeterministic choices in call
//! order, as reported by Kani's concrete playback; each one little-endian bytes folded into a u64)
//! Exit 101 (panic with the obligation's message) if the recorded values violate the obligation,
//! 0 if the harness ran through, 2 if the harness is unknown or the values do not satisfy its
//! assumptions.
fn main() {
    let args: Vec<String> = std::env::args().collect();
    if args.len() < 2 {
        eprintln!("usage: replay <harness> <values...>");
        std::process::exit(2);
    }
    let vals: Vec<u64> = args[2..].iter().map(|s| s.parse::<u64>().expect("u64 value")).collect();
    let name = args[1].clone();
    // report and leave at once: unwinding through a half-finished harness state is pointless (and can block)
    std::panic::set_hook(Box::new(|info| {
        let msg = if let Some(s) = info.payload().downcast_ref::<&str>() {
            s.to_string()
        } else if let Some(s) = info.payload().downcast_ref::<String>() {
            s.clone()
        } else {
            "panic".to_string()
        };
        if msg.contains("replay: assumption not met") {
            eprintln!("REPLAY-UNDECIDED: {}", msg);
            std::process::exit(2);
        }
        eprintln!("REPLAY-VIOLATION: {}", msg);
        std::process::exit(101);
    }));
    let r = std::panic::catch_unwind(move || multiqueue2::verif_hooks::replay(&name, vals));
    match r {
        Ok(true) => println!("replay of {} ran through without violating an obligation", args[1]),
        Ok(false) => {
            eprintln!("unknown harness {}", args[1]);
            std::process::exit(2);
        }
        Err(e) => {
            let msg = if let Some(s) = e.downcast_ref::<&str>() {
                s.to_string()
            } else if let Some(s) = e.downcast_ref::<String>() {
                s.clone()
            } else {
                "panic".to_string()
            };
            if msg.contains("replay: assumption not met") {
                eprintln!("REPLAY-UNDECIDED: {}", msg);
                std::process::exit(2);
            }
            eprintln!("REPLAY-VIOLATION: {}", msg);
            std::process::exit(101);
        }
    }
}
