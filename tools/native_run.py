"""Native runs against the real crate built with the hooks on (no verifier):
   * bounded stand-ins `e2e_*` (concrete public-API histories, both ledgers)
   * replay of a Kani counterexample: the same generic harness body, oracle served from the values
     Kani's concrete playback reported."""
import os
import re
import subprocess
import time

VERIF = os.path.dirname(os.path.dirname(os.path.abspath(__file__)))
TARGET = os.path.join(VERIF, ".cache", "native-target")


class InfraError(Exception):
    pass


def _env():
    e = dict(os.environ)
    e["MULTIQUEUE2_VERIF_DIR"] = os.path.join(VERIF, "kani")
    e["CARGO_TARGET_DIR"] = TARGET
    e["CARGO_NET_OFFLINE"] = "true"
    e["RUST_BACKTRACE"] = "0"
    return e


def build():
    subprocess.run(["python3", os.path.join(VERIF, "tools", "gen_dispatch.py")], capture_output=True, text=True)
    r = subprocess.run(["cargo", "build", "--offline", "--bin", "replay"], cwd=os.path.join(VERIF, "native"), env=_env(),
                       capture_output=True, text=True, timeout=900)
    if r.returncode != 0:
        m = re.search(r"^error.*", r.stderr, re.M | re.S)
        raise InfraError("native build failed:\n" + (m.group(0) if m else r.stderr)[-3000:])
    return os.path.join(TARGET, "debug", "replay")


def build_findings():
    r = subprocess.run(["cargo", "build", "--offline", "--bin", "findings"], cwd=os.path.join(VERIF, "native"), env=_env(),
                       capture_output=True, text=True, timeout=900)
    if r.returncode != 0:
        m = re.search(r"^error.*", r.stderr, re.M | re.S)
        raise InfraError("native build failed:\n" + (m.group(0) if m else r.stderr)[-3000:])
    return os.path.join(TARGET, "debug", "findings")


def run_finding(exe, fid, timeout=120):
    """run the native demonstration of one recorded finding: returns (reproduced: bool or None, line)"""
    try:
        r = subprocess.run([exe, fid], capture_output=True, text=True, timeout=timeout, env=_env())
    except subprocess.TimeoutExpired:
        return None, "demonstration did not finish within %ds" % timeout
    for line in r.stdout.splitlines():
        if line.startswith("DEFECT " + fid):
            return True, line
        if line.startswith("OK " + fid):
            return False, line
    return None, (r.stdout + r.stderr)[-300:]


def run(exe, name, vals, timeout=60):
    """returns (status, message): status in ok | violation | undecided"""
    try:
        r = subprocess.run([exe, name] + [str(v) for v in vals], capture_output=True, text=True, timeout=timeout, env=_env())
    except subprocess.TimeoutExpired:
        return "violation", "did not finish within %ds (hang)" % timeout
    out = r.stdout + r.stderr
    if r.returncode == 0:
        return "ok", ""
    m = re.search(r"REPLAY-VIOLATION: (.*)", out)
    if m:
        return "violation", m.group(1).strip()
    m = re.search(r"REPLAY-UNDECIDED: (.*)", out)
    if m or r.returncode == 2:
        return "undecided", (m.group(1) if m else out[-300:]).strip()
    # abort / segfault / double-free detected by the allocator etc.
    return "violation", "process died with status %s: %s" % (r.returncode, out[-400:].strip())


def playback_values(test_text):
    """Parse the byte vectors of Kani's concrete playback unit test into u64s (little endian)."""
    vals = []
    for m in re.finditer(r"vec!\[([0-9,\s]*)\]", test_text):
        body = m.group(1).strip()
        if not body:
            continue
        bs = [int(x) for x in body.split(",") if x.strip()]
        if len(bs) > 8:
            # the outer vec![ vec![..], .. ] wrapper matched as a whole: skip
            continue
        v = 0
        for i, b in enumerate(bs):
            v |= b << (8 * i)
        vals.append(v)
    return vals
