"""Run Kani proof harnesses on a fresh copy of /repo's working tree (hooks enabled).

The verified text is /repo's working tree: every call rsyncs it to a scratch directory outside
/repo and /verif, adds the futures stub patch + offline cargo config to the COPY, builds with
--features multiqueue2_verif and MULTIQUEUE2_VERIF_DIR=/verif/kani, runs the selected harnesses and
removes the copy.  The cargo target directory is a cache under /verif/.cache (git-ignored).
"""
import fcntl
import os
import re
import shutil
import subprocess
import tempfile
import time

VERIF = os.path.dirname(os.path.dirname(os.path.abspath(__file__)))
REPO = os.environ.get("MQ2_REPO", "/repo")
CACHE = os.path.join(VERIF, ".cache")
TARGET = os.path.join(CACHE, "kani-target")


class InfraError(Exception):
    pass


def _env():
    e = dict(os.environ)
    e["MULTIQUEUE2_VERIF_DIR"] = os.path.join(VERIF, "kani")
    e["CARGO_TARGET_DIR"] = TARGET
    e["CARGO_NET_OFFLINE"] = "true"
    e.pop("RUSTFLAGS", None)
    return e


def prepare_scratch():
    os.makedirs(CACHE, exist_ok=True)
    base = os.environ.get("MQ2_SCRATCH_BASE") or tempfile.gettempdir()
    d = tempfile.mkdtemp(prefix="mq2-verif-kani-", dir=base)
    r = subprocess.run(["rsync", "-a", "--exclude", "target", "--exclude", ".git", REPO + "/", d + "/"],
                       capture_output=True, text=True)
    if r.returncode != 0:
        shutil.rmtree(d, ignore_errors=True)
        raise InfraError("rsync failed: " + r.stderr)
    with open(os.path.join(d, "Cargo.toml"), "a") as f:
        f.write('\n[patch.crates-io]\nfutures = { path = "%s" }\n' % os.path.join(VERIF, "kani/stubs/futures"))
    os.makedirs(os.path.join(d, ".cargo"), exist_ok=True)
    with open(os.path.join(d, ".cargo/config.toml"), "w") as f:
        f.write("[net]\noffline = true\n")
    return d


class Lock:
    def __enter__(self):
        os.makedirs(CACHE, exist_ok=True)
        self.f = open(os.path.join(CACHE, "kani.lock"), "w")
        fcntl.flock(self.f, fcntl.LOCK_EX)
        return self

    def __exit__(self, *a):
        fcntl.flock(self.f, fcntl.LOCK_UN)
        self.f.close()


RES_RE = re.compile(r"\*\* (\d+) of (\d+) failed")
COVER_RE = re.compile(r"\*\* (\d+) of (\d+) cover properties satisfied")
FAIL_RE = re.compile(r'Failed Checks: (.*)\n\s*File: "([^"]*)", line (\d+), in (\S+)')
TIME_RE = re.compile(r"Verification Time: ([0-9.]+)s")


def parse_result(text):
    """Parse one per-harness terse result file."""
    out = {"status": "unknown", "checks": 0, "failed": 0, "failed_checks": [], "covers": None, "time_s": None}
    m = RES_RE.search(text)
    if m:
        out["failed"], out["checks"] = int(m.group(1)), int(m.group(2))
    m = COVER_RE.search(text)
    if m:
        out["covers"] = [int(m.group(1)), int(m.group(2))]
    for m in FAIL_RE.finditer(text):
        out["failed_checks"].append({"desc": m.group(1).strip().strip('"'), "file": m.group(2), "line": int(m.group(3)), "fn": m.group(4)})
    m = TIME_RE.search(text)
    if m:
        out["time_s"] = float(m.group(1))
    if "VERIFICATION:- SUCCESSFUL" in text:
        out["status"] = "success"
    elif "VERIFICATION:- FAILED" in text:
        out["status"] = "failed"
        if "CBMC failed" in text or "out of memory" in text.lower() or "timed out" in text.lower() or "TIMEOUT" in text:
            out["status"] = "error"
        elif not out["failed_checks"] and out["failed"] == 0:
            out["status"] = "error"
    return out


def _run_group(cmd, cwd, timeout_s):
    """run in its own process group so that a timeout also kills the cbmc children"""
    import signal
    def _limits():
        import resource
        # a CBMC run that needs more than this is a blow-up: let it die instead of taking the sandbox down
        lim = int(os.environ.get("MQ2_CBMC_MEM_GB", "20")) * 1024 ** 3
        resource.setrlimit(resource.RLIMIT_AS, (lim, lim))
    p = subprocess.Popen(cmd, cwd=cwd, env=_env(), stdout=subprocess.PIPE, stderr=subprocess.STDOUT, text=True,
                         start_new_session=True, preexec_fn=_limits)
    try:
        out, _ = p.communicate(timeout=timeout_s)
        return out, p.returncode
    except subprocess.TimeoutExpired:
        try:
            os.killpg(p.pid, signal.SIGKILL)
        except Exception:
            pass
        p.wait()
        raise


def run_harnesses(harnesses, jobs=16, reach_checks=False, timeout_s=3600, harness_timeout=None, extra=None, keep=False,
                  features="multiqueue2_verif"):
    """harnesses: list of fully qualified harness names.  Returns (results: dict name -> parsed, meta)."""
    if not harnesses:
        return {}, {"build_s": 0, "cmd": ""}
    t0 = time.time()
    with Lock():
        d = prepare_scratch()
        try:
            cmd = ["cargo", "kani", "--features", features, "--output-format=terse", "-Z", "unstable-options", "-Z", "stubbing",
                   "--output-into-files", "--exact", "-j", str(max(1, min(jobs, len(harnesses))))]
            if not reach_checks:
                cmd.append("--no-assertion-reach-checks")
            if harness_timeout:
                cmd += ["--harness-timeout", str(harness_timeout)]
            if extra:
                cmd += extra
            for h in harnesses:
                cmd += ["--harness", h]
            try:
                out, rc = _run_group(cmd, d, timeout_s)
            except subprocess.TimeoutExpired:
                out = "\nTIMEOUT after %ds" % timeout_s
                rc = -9
            results = {}
            rdir = os.path.join(d, "result_output_dir")
            for h in harnesses:
                p = os.path.join(rdir, h)
                if os.path.exists(p):
                    txt = open(p, errors="replace").read()
                    res = parse_result(txt)
                    res["raw"] = txt[-6000:]
                else:
                    res = {"status": "missing", "checks": 0, "failed": 0, "failed_checks": [], "covers": None,
                           "time_s": None, "raw": ""}
                results[h] = res
            compile_error = None
            if "could not compile" in out or re.search(r"^error(\[E\d+\])?:", out, re.M):
                m = re.search(r"^error.*?(?=^warning|\Z)", out, re.M | re.S)
                compile_error = (m.group(0) if m else out)[-4000:]
            meta = {"cmd": " ".join(cmd), "rc": rc, "wall_s": time.time() - t0, "compile_error": compile_error,
                    "tail": out[-3000:]}
            return results, meta
        finally:
            if not keep:
                shutil.rmtree(d, ignore_errors=True)


def concrete_playback(harness, timeout_s=1500):
    """Re-run one failing harness with concrete playback; returns the generated unit test text or None."""
    with Lock():
        d = prepare_scratch()
        try:
            cmd = ["cargo", "kani", "--features", "multiqueue2_verif", "--exact", "--harness", harness,
                   "-Z", "stubbing", "-Z", "concrete-playback", "--concrete-playback=print", "--no-assertion-reach-checks"]
            try:
                r = subprocess.run(cmd, cwd=d, env=_env(), capture_output=True, text=True, timeout=timeout_s)
            except subprocess.TimeoutExpired:
                return None
            out = r.stdout
            m = re.search(r"Concrete playback unit test for `[^`]*`:\s*```\s*(.*?)```", out, re.S)
            if m:
                return m.group(1)
            return None
        finally:
            shutil.rmtree(d, ignore_errors=True)


def warm_up():
    """Build the Kani crate once so later runs only pay for the harnesses."""
    with Lock():
        d = prepare_scratch()
        try:
            cmd = ["cargo", "kani", "--features", "multiqueue2_verif", "-Z", "stubbing", "--only-codegen"]
            r = subprocess.run(cmd, cwd=d, env=_env(), capture_output=True, text=True)
            return r.returncode, (r.stdout + r.stderr)[-3000:]
        finally:
            shutil.rmtree(d, ignore_errors=True)
