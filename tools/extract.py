#!/usr/bin/env python3
"""Mechanical extractor: /repo/src/*.rs  ->  one Verus file.

Driven by a .vspec file (see verus/contracts/core.vspec).  Everything executable in the output is a
byte range copied from the source file; what is added or dropped is exactly:

  R1  dropped: doc comments / comments outside the copied ranges, item attributes
      (#[inline(always)], #[cold], #[allow(..)], #[derive(..)] unless the directive says
      `keep_attrs`), `#[cfg(test)]` items (never selected).
  R2  `-> T` in a selected fn signature becomes `-> (<ret>: T)`; the `spec:` text of the directive is
      inserted between the signature and the body; `loop <k>:` text is inserted between the k-th
      loop header of the body and its `{`.
  R3  `const X: T = e;` becomes `exec const X: T ensures X == <v> { <v> }` where <v> is the value
      rustc's const evaluation gives `e` in the real source file (printed by a probe program that
      `include!`s the source file; re-run on every extraction).
  R4  nothing else.  Function bodies are byte-identical; the extractor re-checks that by hashing the
      source range and the emitted range.

Exit status: 0 ok; 2 lost anchor / unsupported construct (never a property verdict).
"""
import hashlib
import json
import os
import re
import subprocess
import sys
import tempfile

sys.path.insert(0, os.path.dirname(os.path.abspath(__file__)))
import rslex  # noqa: E402


class ExtractError(Exception):
    pass


def load_spec(path):
    """Parse the .vspec directives into a list of dicts."""
    out = []
    cur = None
    section = None
    for ln in open(path).read().split("\n"):
        if ln.startswith("%% "):
            if cur:
                out.append(cur)
            head = ln[3:].strip()
            section = None
            if head == "verbatim" or head.startswith("verbatim "):
                cur = {"kind": "verbatim", "text": [], "label": head[8:].strip()}
                section = "text"
            elif head.startswith("item "):
                m = re.match(r"item\s+(\S+)\s*::\s*(.*)$", head)
                if not m:
                    raise ExtractError("bad directive: " + ln)
                cur = {"kind": "item", "file": m.group(1), "path": [p.strip() for p in m.group(2).split("::")],
                       "ret": None, "spec": [], "loops": {}, "keep_attrs": False, "vis": None}
            elif head.startswith("#"):
                cur = None
            else:
                raise ExtractError("bad directive: " + ln)
            continue
        if cur is None:
            continue
        if cur["kind"] == "verbatim":
            cur["text"].append(ln)
            continue
        s = ln.strip()
        if section in ("spec", "loop") and (ln.startswith(" ") or ln.startswith("\t") or s == ""):
            if section == "spec":
                cur["spec"].append(ln)
            else:
                cur["loops"][cur["_loopk"]].append(ln)
            continue
        if s.startswith("ret:"):
            cur["ret"] = s[4:].strip()
            section = None
        elif s == "keep_attrs":
            cur["keep_attrs"] = True
        elif s == "spec:":
            section = "spec"
        elif re.match(r"loop\s+(\d+):", s):
            k = int(re.match(r"loop\s+(\d+):", s).group(1))
            cur["loops"][k] = []
            cur["_loopk"] = k
            section = "loop"
        elif s == "" or s.startswith("#"):
            pass
        else:
            raise ExtractError("bad line in directive %s: %r" % (cur["path"], ln))
    if cur:
        out.append(cur)
    return out


def find_item(items, sel, src):
    """sel: 'fn past' | 'impl CountedIndex' | 'mod index_data[64]' | 'const X' ..."""
    m = re.match(r"(\w+)\s+(\w+)(?:\[(\w+)\])?$", sel)
    if not m:
        raise ExtractError("bad selector " + sel)
    kind, name, variant = m.groups()
    cands = [it for it in items if it.kind == kind and it.name == name]
    if kind == "impl":
        cands = [it for it in cands if it.impl_trait is None]
    if variant:
        # choose by #[cfg(target_pointer_width = "<variant>")]
        cands = [it for it in cands
                 if any(('target_pointer_width = "%s"' % variant) in src[s:e] for s, e in it.attr_ranges)]
    else:
        cands = [it for it in cands if not any("cfg(test)" in src[s:e] for s, e in it.attr_ranges)]
    return cands


def const_values(srcdir, files):
    """R3: evaluate every top-level (and index_data[64]) const of the given files with rustc."""
    vals = {}
    with tempfile.TemporaryDirectory(prefix="mq2-constprobe-") as td:
        prog = ["#![allow(dead_code, unused_imports, unused_parens)]"]
        prints = []
        for idx, f in enumerate(files):
            src = open(os.path.join(srcdir, f)).read()
            items = rslex.parse_items(src)
            names = []
            for it in items:
                if it.kind == "const":
                    names.append((it.name, it.name))
                if it.kind == "mod" and not any("cfg(test)" in src[s:e] for s, e in it.attr_ranges):
                    if any('target_pointer_width = "32"' in src[s:e] for s, e in it.attr_ranges):
                        continue
                    for ch in it.children:
                        if ch.kind == "const":
                            names.append((it.name + "::" + ch.name, it.name + "::" + ch.name))
            if not names:
                continue
            mod = "m%d" % idx
            prog.append("mod %s { include!(%s);\n pub fn dump() {" % (mod, json.dumps(os.path.join(srcdir, f))))
            for key, expr in names:
                prog.append('  println!("{}\\t{}\\t{}", %s, %s, %s as u128);' % (json.dumps(f), json.dumps(key), expr))
            prog.append("}}")
            prints.append("%s::dump();" % mod)
        prog.append("fn main() { %s }" % " ".join(prints))
        p = os.path.join(td, "probe.rs")
        open(p, "w").write("\n".join(prog))
        exe = os.path.join(td, "probe")
        r = subprocess.run(["rustc", "--edition", "2018", "-A", "warnings", "-o", exe, p],
                           capture_output=True, text=True)
        if r.returncode != 0:
            raise ExtractError("const probe does not compile:\n" + r.stderr[-2000:])
        out = subprocess.run([exe], capture_output=True, text=True, check=True).stdout
        for ln in out.strip().split("\n"):
            f, key, v = ln.split("\t")
            vals[(f, key)] = int(v)
    return vals


def rewrite_sig(sig, ret):
    """R2: `-> T` becomes `-> (ret: T)` (top-level arrow of the signature only)."""
    if ret is None:
        return sig
    toks = rslex.code_tokens(rslex.lex(sig))
    # last '->' at paren depth 0
    depth = 0
    arrow = None
    for t in toks:
        if t.kind == "punct" and t.text in "([":
            depth += 1
        elif t.kind == "punct" and t.text in ")]":
            depth -= 1
        elif t.text == "->" and depth == 0:
            arrow = t
    if arrow is None:
        raise ExtractError("ret given but no return type in: " + sig)
    # a `where` clause after the return type is not used in the selected functions
    ty = sig[arrow.end:].strip()
    return sig[:arrow.end] + " (" + ret + ": " + ty + ")"


def emit_fn(src, it, d, report, qual):
    sig = src[it.decl_start:it.body_open].rstrip()
    sig = rewrite_sig(sig, d["ret"])
    body = src[it.body_open:it.body_close]
    loops = rslex.find_loops(src, it.body_open, it.body_close)
    if d["loops"]:
        pieces = []
        last = it.body_open
        for k in sorted(d["loops"]):
            if k >= len(loops):
                raise ExtractError("lost anchor: %s has no loop #%d" % (qual, k))
            pieces.append(src[last:loops[k]])
            pieces.append("\n" + "\n".join(d["loops"][k]) + "\n")
            last = loops[k]
        pieces.append(src[last:it.body_close])
        body_out = "".join(pieces)
    else:
        body_out = body
    # R4 self-check: removing what was inserted gives the source bytes back
    chk = body_out
    for k in d["loops"]:
        chk = chk.replace("\n" + "\n".join(d["loops"][k]) + "\n", "", 1)
    if chk != body:
        raise ExtractError("self-check failed for " + qual)
    report["functions"].append({
        "path": qual, "file": d["file"],
        "sha256_body": hashlib.sha256(body.encode()).hexdigest()[:16],
        "loops": len(loops), "spec_lines": len([x for x in d["spec"] if x.strip()]),
    })
    attrs = ""
    if d["keep_attrs"]:
        attrs = "".join(src[s:e] + "\n" for s, e in it.attr_ranges)
    return attrs + sig + "\n" + "\n".join(d["spec"]) + "\n" + body_out + "\n"


def lit(v, ty):
    return "0x%x%s" % (v, ty)


def emit_const(src, it, d, vals, key, report):
    text = src[it.decl_start:it.end]
    m = re.match(r"((?:pub(?:\([^)]*\))?\s+)?)const\s+(\w+)\s*:\s*([^=]+?)\s*=\s*(.*);\s*$", text, re.S)
    if not m:
        raise ExtractError("unsupported const form: " + text)
    vis, name, ty, expr = m.groups()
    if (d["file"], key) not in vals:
        raise ExtractError("lost anchor: const value for %s not probed" % key)
    v = vals[(d["file"], key)]
    sfx = {"Index": "u64", "index_data::Index": "u64"}.get(ty, ty)
    report["consts"].append({"path": key, "file": d["file"], "source_expr": " ".join(expr.split()), "rustc_value": v})
    return "%sexec const %s: %s ensures %s == %s { %s }\n" % (vis, name, ty, name, lit(v, sfx), lit(v, sfx))


def extract(srcdir, specpath):
    directives = load_spec(specpath)
    files = sorted({d["file"] for d in directives if d["kind"] == "item"})
    cache = {}
    for f in files:
        p = os.path.join(srcdir, f)
        if not os.path.exists(p):
            raise ExtractError("lost anchor: file %s missing" % f)
        src = open(p).read()
        cache[f] = (src, rslex.parse_items(src))
    need_consts = any(d["kind"] == "item" and d["path"][-1].split()[0] == "const" for d in directives)
    vals = const_values(srcdir, [f for f in files if f in ("countedindex.rs", "atomicsignal.rs")]) if need_consts else {}
    report = {"functions": [], "consts": [], "types": [], "dropped_rules": ["R1", "R2", "R3", "R4"]}
    out = []
    for d in directives:
        if d["kind"] == "verbatim":
            out.append("\n".join(d["text"]) + "\n")
            continue
        src, items = cache[d["file"]]
        path = d["path"]
        scope = items
        parent = None
        qual = d["file"][:-3]
        for sel in path[:-1]:
            c = find_item(scope, sel, src)
            if len(c) != 1:
                raise ExtractError("lost anchor: %s :: %s (%d candidates)" % (d["file"], sel, len(c)))
            parent = c[0]
            scope = parent.children
            qual += "::" + parent.name
        c = find_item(scope, path[-1], src)
        if len(c) < 1:
            # impl blocks may be split: search all impl blocks with that target
            if parent is not None and parent.kind == "impl":
                for it in items:
                    if it.kind == "impl" and it.name == parent.name and it.impl_trait == parent.impl_trait:
                        c2 = find_item(it.children, path[-1], src)
                        if c2:
                            c, parent = c2, it
                            break
        if len(c) != 1:
            raise ExtractError("lost anchor: %s :: %s (%d candidates)" % (d["file"], " :: ".join(path), len(c)))
        it = c[0]
        qual += "::" + it.name
        if it.kind == "fn":
            body = emit_fn(src, it, d, report, qual)
            if parent is not None and parent.kind == "impl":
                hdr = src[parent.decl_start:parent.body_open].rstrip()
                out.append(hdr + " {\n" + body + "}\n")
            elif parent is not None and parent.kind == "mod":
                raise ExtractError("fn inside mod not supported: " + qual)
            else:
                out.append(body)
        elif it.kind == "const":
            key = it.name if parent is None else parent.name + "::" + it.name
            txt = emit_const(src, it, d, vals, key, report)
            if parent is not None and parent.kind == "mod":
                out.append("mod %s { use super::*; %s}\n" % (parent.name, txt)) if False else out.append(txt)
            else:
                out.append(txt)
        elif it.kind in ("struct", "enum", "type"):
            attrs = "".join(src[s:e] + "\n" for s, e in it.attr_ranges) if d["keep_attrs"] else ""
            out.append(attrs + src[it.decl_start:it.end] + "\n")
            report["types"].append({"path": qual, "file": d["file"]})
        else:
            raise ExtractError("unsupported item kind %s for %s" % (it.kind, qual))
    return "".join(out), report


def main():
    import argparse
    ap = argparse.ArgumentParser()
    ap.add_argument("--src", default="/repo/src")
    ap.add_argument("--spec", required=True)
    ap.add_argument("--out", required=True)
    ap.add_argument("--report")
    a = ap.parse_args()
    try:
        text, report = extract(a.src, a.spec)
    except ExtractError as e:
        print("EXTRACT-ERROR: %s" % e, file=sys.stderr)
        sys.exit(2)
    os.makedirs(os.path.dirname(os.path.abspath(a.out)), exist_ok=True)
    open(a.out, "w").write(text)
    if a.report:
        json.dump(report, open(a.report, "w"), indent=1)


if __name__ == "__main__":
    main()
