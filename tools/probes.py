"""Layer X (C19): trait-bound obligations decided by rustc's trait solver.

One probe crate is generated on every run; it depends on /repo's working tree by path.  Every
probe is one `const _: fn()` item that type-checks exactly when the stated trait fact holds:
positive facts through a bounded generic function (a call checked against the callee's trait
contract), negative facts through the ambiguity idiom (two blanket impls, the second guarded by the
trait: inference is ambiguous -- a compile error -- exactly when the type implements the trait).
A probe whose item produces a compiler error has failed; errors are attributed by line number.
"""
import json
import os
import shutil
import subprocess
import tempfile
import time

VERIF = os.path.dirname(os.path.dirname(os.path.abspath(__file__)))
REPO = os.environ.get("MQ2_REPO", "/repo")

PAYLOADS = [
    ("i32", "i32", True, True),
    ("Cell<i32>", "cell", True, False),
    ("Rc<i32>", "rc", False, False),
]
CLOSURES = [
    ("fn(&{T}) -> i32", "fnptr", True),
    ("Box<dyn FnMut(&{T}) -> i32>", "boxdyn", False),
]


def handle_table():
    """(type expression, name, payload name, expected Send)"""
    rows = []
    for (pt, pn, psend, psync) in PAYLOADS:
        for fam, need_sync in (("MPMC", False), ("Broadcast", True)):
            ok = psend and (psync or not need_sync)
            for h in ("Sender", "Receiver", "FutSender", "FutReceiver"):
                rows.append(("%s%s<%s>" % (fam, h, pt), "%s%s_%s" % (fam, h, pn), ok))
            # single-consumer receivers; the broadcast ones are only well-formed for T: Sync
            if fam == "MPMC" or psync:
                rows.append(("%sUniReceiver<%s>" % (fam, pt), "%sUniReceiver_%s" % (fam, pn), ok))
                for (ct, cn, csend) in CLOSURES:
                    rows.append(("%sFutUniReceiver<i32, %s, %s>" % (fam, ct.format(T=pt), pt),
                                 "%sFutUniReceiver_%s_%s" % (fam, pn, cn), ok and csend))
    return rows


HEADER = """#![allow(dead_code, unused_imports)]
use multiqueue2::*;
use std::cell::Cell;
use std::rc::Rc;

fn need_send<T: Send>() {}

macro_rules! not_impl {
    ($x:ty, $t:path) => {
        const _: fn() = || {
            trait AmbiguousIfImpl<A> { fn some_item() {} }
            impl<T: ?Sized> AmbiguousIfImpl<()> for T {}
            struct Invalid;
            impl<T: ?Sized + $t> AmbiguousIfImpl<Invalid> for T {}
            let _ = <$x as AmbiguousIfImpl<_>>::some_item;
        };
    };
}
"""


def generate():
    lines = HEADER.split("\n")
    probes = []
    for (ty, name, send) in handle_table():
        if send:
            lines.append("const _: fn() = || need_send::<%s>();" % ty)
            desc = "C19: %s must be Send (payload/closure are sound to move)" % ty
        else:
            lines.append("not_impl!(%s, Send);" % ty)
            desc = "C19: %s must NOT be Send (payload or closure cannot soundly cross threads)" % ty
        probes.append({"name": "send_" + name, "line": len(lines), "desc": desc, "expect_send": send, "type": ty})
        lines.append("not_impl!(%s, Sync);" % ty)
        probes.append({"name": "notsync_" + name, "line": len(lines), "desc": "C19: %s must never be Sync" % ty, "type": ty})
    lines.append("fn main() {}")
    return "\n".join(lines) + "\n", probes


def run(tier="quick"):
    t0 = time.time()
    text, probes = generate()
    base = os.environ.get("MQ2_SCRATCH_BASE") or tempfile.gettempdir()
    d = tempfile.mkdtemp(prefix="mq2-verif-probe-", dir=base)
    try:
        os.makedirs(os.path.join(d, "src"))
        open(os.path.join(d, "src/main.rs"), "w").write(text)
        open(os.path.join(d, "Cargo.toml"), "w").write(
            '[package]\nname = "mq2probe"\nversion = "0.0.0"\nedition = "2018"\n\n[dependencies]\nmultiqueue2 = { path = "%s" }\n\n[workspace]\n' % REPO)
        lock = os.path.join(REPO, "Cargo.lock")
        env = dict(os.environ)
        env["CARGO_TARGET_DIR"] = os.path.join(VERIF, ".cache", "probe-target")
        env["CARGO_NET_OFFLINE"] = "true"
        cmd = ["cargo", "check", "--offline", "--message-format=json", "-q"]
        r = subprocess.run(cmd, cwd=d, env=env, capture_output=True, text=True, timeout=900)
        errors = []
        dep_failed = False
        for ln in r.stdout.split("\n"):
            if not ln.startswith("{"):
                continue
            try:
                m = json.loads(ln)
            except Exception:
                continue
            if m.get("reason") != "compiler-message":
                continue
            msg = m["message"]
            if msg.get("level") != "error":
                continue
            if "mq2probe" not in m.get("target", {}).get("name", "mq2probe"):
                dep_failed = True
            spans = [s for s in msg.get("spans", []) if s.get("file_name", "").endswith("main.rs")]
            exp = []
            for s in msg.get("spans", []):
                e = s.get("expansion")
                while e:
                    if e["span"].get("file_name", "").endswith("main.rs"):
                        exp.append(e["span"]["line_start"])
                    e = e["span"].get("expansion")
            errors.append({"lines": [s["line_start"] for s in spans] + exp, "code": (msg.get("code") or {}).get("code"),
                           "text": msg.get("rendered", "")[:1200]})
        if r.returncode != 0 and not errors:
            raise RuntimeError("probe crate did not build and no diagnostic could be attributed:\n" + r.stderr[-3000:])
        if dep_failed:
            raise RuntimeError("multiqueue2 itself failed to compile:\n" + "\n".join(e["text"] for e in errors)[:3000])
        out = []
        for p in probes:
            hit = [e for e in errors if p["line"] in e["lines"]]
            out.append({"name": p["name"], "ok": not hit, "desc": p["desc"],
                        "raw": "\n".join(h["text"] for h in hit), "time_s": None})
        unattributed = [e for e in errors if not any(p["line"] in e["lines"] for p in probes)]
        if unattributed:
            raise RuntimeError("compiler errors not attributable to a probe:\n" + unattributed[0]["text"])
        return {"probes": out, "cmd": "cargo check (generated probe crate, path dependency on /repo working tree)",
                "wall_s": time.time() - t0,
                "samples": [{"probe": probes[0]["name"], "item": text.split("\n")[probes[0]["line"] - 1]},
                            {"probe": probes[-1]["name"], "item": text.split("\n")[probes[-1]["line"] - 1]}]}
    finally:
        shutil.rmtree(d, ignore_errors=True)


if __name__ == "__main__":
    r = run()
    for p in r["probes"]:
        if not p["ok"]:
            print("FAIL", p["name"], p["desc"])
    print(len(r["probes"]), "probes,", len([p for p in r["probes"] if not p["ok"]]), "failed, %.1fs" % r["wall_s"])
