#!/usr/bin/env python3
"""Regenerate DESIGN.md section 17 (seeded-change table) from seeded/*/meta.json."""
import glob
import json
import os
import re

VERIF = os.path.dirname(os.path.dirname(os.path.abspath(__file__)))
rows = []
for mp in sorted(glob.glob(os.path.join(VERIF, "seeded", "*", "meta.json"))):
    sid = os.path.basename(os.path.dirname(mp))
    m = json.load(open(mp))
    det = m.get("detected_by", {})
    cells = []
    for k in sorted(det):
        d = det[k]
        if d["violations"]:
            cells.append("%s: CAUGHT by %s" % (k, ", ".join(o.split(":", 1)[1] for o in d["obligations"][:4]) + (" ..." if len(d["obligations"]) > 4 else "")))
        else:
            cells.append("%s: missed (exit %s)" % (k, d["exit"]))
    rows.append("| %s | %s | %s | %s | %s |" % (sid, m.get("property", ""), m.get("change", "").replace("|", "/"), m.get("needs_to_manifest", "").replace("|", "/"), "<br>".join(cells) or "not yet run"))
hdr = "## 17. Seeded changes and which checks catch them\n\n| seed | property | change | needs | result |\n|---|---|---|---|---|\n"
text = hdr + "\n".join(rows) + "\n"
p = os.path.join(VERIF, "DESIGN.md")
s = open(p).read()
i = s.find("## 17. Seeded changes")
if i >= 0:
    s = s[:i]
s = s.rstrip() + "\n\n" + text
open(p, "w").write(s)
print("%d seeds" % len(rows))
