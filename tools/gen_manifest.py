#!/usr/bin/env python3
"""Generate /verif/MANIFEST.json from the catalogue + the per-property texts below."""
import json
import os
import subprocess
import sys

VERIF = os.path.dirname(os.path.dirname(os.path.abspath(__file__)))
sys.path.insert(0, VERIF)
import catalog  # noqa: E402

COMMON_NOTE = ("Trusted: rustc; Verus+Z3 and vstd's std specs (atomics havoc); Kani/CBMC with sequentially consistent "
               "single-thread atomics (memory orderings NOT verified); futures-0.1 stub under Kani; shim types of "
               "kani/verif_hooks.rs; assumption A-wrap (no 63-bit counter wrap inside one call). Kani obligations are complete "
               "for the stated ring size / stream count (every loop closed by an unwinding assertion) and unbounded in counters, "
               "payloads and history (arbitrary well-formed start state); they are never reported as unbounded in N.")

# property -> (claimed?, level category, text, technique, design_ref, extra note)
KT = "Kani contract harnesses on the real crate (pre/post over an abstraction function from an arbitrary well-formed state)"
P = {
    "C01": (True, "proof",
            "Contracts on the real ring operations: from an ARBITRARY well-formed queue state (symbolic 63-bit counters, positions, stale cache, payloads) an accepted send appends exactly the sent instance under its count, a refused send hands the same instance back and changes nothing, a receive (try/blocking/view/poll) returns payload[cursor] and advances the cursor by exactly one; by induction exactly-once per stream for every sequential history. Under a budgeted environment of other senders/consumers acting between every two shared accesses the commit is a CAS from the observed count (plain store only for a sole consumer), a value is delivered iff exactly one commit succeeded and it is the value published under that count, a speculative read whose commit failed is forgotten. Index/tag algebra for every ring size in Verus.",
            "Verus contracts on extracted countedindex/ReadAttempt functions + " + KT + " + rely/guarantee harnesses (environment moves + guarantee log)",
            "DESIGN.md 4 (P, L2, L3, S1-S4, S7, S8, S12, I1, I2, I7), 5 C01, 14"),
    "C02": (True, "proof",
            "The delivery order is the claim count: every accepted send takes the next count (claim = +1 from the observed value, by CAS unless sole sender: guarantee log), every stream hands out payload[cursor] with the cursor moving +1 after the tag for that count was seen; a tag names exactly one count of the window (Verus, all N).",
            "Verus lemmas + " + KT + " + guarantee log", "DESIGN.md 5 C02"),
    "C03": (True, "proof",
            "get_valid_wrap = next power of two (min 1) for all inputs (Verus + full-domain Kani twin); the writer's full test fires exactly at ring distance N for every valid N (Verus bit-vector lemma); from an arbitrary well-formed state try_send_single/multi accept iff head - min position < N and never overwrite an unconsumed slot, also with a stale cached tail; under interference the window has room with respect to the TRUE minimum at the instant of the claim and the cache is never moved ahead of the slowest stream.",
            "Verus contracts/lemmas (unbounded N) + " + KT + " + guarantee log", "DESIGN.md 5 C03"),
    "C04": (True, "proof",
            "The harness payload's Clone and the view closure yield to the environment in the middle and assert the value and its liveness are unchanged; shared broadcast receive under senders that wrap the ring and sibling consumers (pin protocol), sole-consumer view under wrapping senders, and on the writer side: no claim of a slot a consumer holds a validated pin on. Sequentially: value identity and liveness from any well-formed state.",
            KT + " + rely/guarantee harnesses with a yielding payload", "DESIGN.md 5 C04"),
    "C05": (True, "proof",
            "Payload ledger (instance serials; Drop asserts live, flags double drop / drop of garbage): overwrite drops the old broadcast content exactly once, move-out hands over the instance, view destroys it exactly once after the closure, refused values come back live, teardown of the ring from an arbitrary final state drops exactly the payloads still owned (Drop for MultiQueue, both flavours), a failed commit forgets. Bounded native stand-ins add whole-API teardown histories.",
            KT + " with a payload ledger", "DESIGN.md 5 C05"),
    "C06": (True, "proof",
            "Quiescent part: from ANY well-formed state (what remains once in-flight operations have returned) sends are refused iff the model is full and receives report Empty iff the stream is drained; every operation re-establishes well-formedness; under interference no pin is left behind on any path. The transient part (spurious answers only while another thread is mid-operation) is not decided.",
            KT, "DESIGN.md 5 C06"),
    "C07": (True, "proof",
            "From a well-formed state with no sender: values first, then the end (Disconnected / Err / None / iterator end), and the state is unchanged by reporting it (so it is reported again); never while a sender is alive; under interference Disconnected is returned only when no sender is alive and the stream has consumed every accepted value (two-look race); dropping a sender decrements after its last send and notifies unconditionally.",
            KT + " + rely/guarantee harness for the two-look race", "DESIGN.md 5 C07"),
    "C08": (True, "proof",
            "Safety decomposition only (liveness itself - scheduler fairness, parking_lot's condvar - is assumed): the wake-up test equals its specification on the full domain; each built-in strategy's wait returns exactly when the test was observed true and re-evaluates it after every pause (spin counts 0..2); BlockingWait sleeps only after testing under its lock and notify takes that lock; recv/recv_view re-try after every return of wait and enter it with (cursor, tag cell of the cursor's slot, writer counter), also when a sibling consumed in between; accepted send and sender drop notify.",
            KT + " on wait strategies and blocking receives (scripted wake-up, environment)", "DESIGN.md 5 C08"),
    "C09": (True, "proof",
            "This is the sequential layer in full: every ring operation, handle operation (send, 4 receive forms, add_stream, clone, drop, unsubscribe), futures operation and the memory manager is under a pre/post contract against the reference model from an arbitrary well-formed state, so every finite single-threaded history answers like the model and does not panic (Kani checks every panic/overflow/pointer on the way). Constructors, thin wrappers, iterators and conversions are covered only by bounded native stand-ins (concrete histories per requested capacity 0..9).",
            KT + "; bounded native stand-ins for wrappers/constructors", "DESIGN.md 5 C09"),
    "C10": (True, "proof",
            "Sequential contract of add_stream from an arbitrary well-formed state: the new stream is appended at exactly the parent's position with one consumer, every existing stream keeps its position object and position, log/cache/senders/slots untouched, old list retired. The concurrent part (publication racing with producers and with siblings of a shared parent) is NOT decided: the interference harness for add_stream was not built (see DESIGN 14).",
            KT, "DESIGN.md 5 C10"),
    "C11": (True, "proof",
            "remove_reader / drop / unsubscribe from an arbitrary well-formed state: the last handle removes exactly its stream from the published list (others keep order, position object, position), a non-last handle only lowers the count, unsubscribe returns true exactly for the last handle, the no-reader flag is raised exactly when the list becomes empty; from the post-state the send contract accepts iff the remaining minimum allows it. Concurrent scan-vs-removal is not decided.",
            KT, "DESIGN.md 5 C11"),
    "C12": (True, "proof",
            "Clone/Drop post-states re-establish 'single-writer mode only with one sender' and 'sole-consumer mode only with one consumer' (both handles Multi after a clone); InnerSend::try_send switches back only at writer count 1; guarantee log under interference: a plain store to the claim counter / cursor / cached tail only when no other sender / consumer exists.",
            KT + " + guarantee log", "DESIGN.md 5 C12"),
    "C13": (True, "proof",
            "With the no-reader flag set try_send returns Disconnected(same instance) and writes nothing; the flag is raised exactly when the last stream is removed and epoch traffic never clears it (all 2^64 flag words); the Sink maps it to Err(SendError(same instance)) without parking; send_or_park returns a Disconnected at any attempt at once; dropping a futures receiver notifies the producer list after the removal.",
            KT + " + full-domain Kani twin for the signal word", "DESIGN.md 5 C13"),
    "C14": (True, "proof",
            "Safety decomposition (executor fairness assumed). Caller side, from an arbitrary well-formed state: every path that makes progress possible for the other side takes the other side's wait-list lock (= runs notify) AFTER its state change - accepted send, value delivered by poll (x2) or by the direct methods, receiver drop, sender drop; a task that gets NotReady is parked exactly once. Callee side (FutWait alone): notify/notify_all drain the list and notify every parked task exactly once; park/send_or_park repeat their test under the list lock before parking (no lost wake-up).",
            KT + " split caller/callee (modular)", "DESIGN.md 5 C14, 14"),
    "C15": (True, "proof",
            "start_send: Ready iff enqueued, NotReady(identical message) iff nothing enqueued and full, Err(identical message) iff no receiver; poll: Ready(Some(payload[cursor])) / Ready(None) only at the end and again afterwards / NotReady otherwise, also on a fresh never-wrapped queue; neither reaches a condition variable or loops beyond the configured spin counts (non-termination of poll is a violation); the direct try_recv/recv equal their plain counterparts and do not panic.",
            KT + " (futures stub: assumed contract of the dependency)", "DESIGN.md 5 C15"),
    "C16": (True, "proof",
            "Epoch contract of the memory manager with symbolic epochs: free never deallocates the object it retires, the batch is deallocated exactly when every registered token announced the current epoch (each object once: allocation ledger), a new batch only after the previous one is gone; tokens start at the current epoch, flagged handles announce at the start of an operation; everything unlinked by add_stream/remove_reader is retired through the manager, never freed in place. ToFree::delete is replaced by a contract stand-in (assumed). Concurrent scans vs. reclamation are not decided.",
            KT + " with an allocation ledger", "DESIGN.md 5 C16"),
    "C17": (True, "proof",
            "Allocation ledger: Drop for MultiQueue hands back ring, pin table and last stream list; the manager releases batch and waiting objects at teardown; every dropped handle unregisters its token (so the epoch scheme keeps turning: bounded waiting list); bounded native stand-ins: whole-API histories end with zero live allocations.",
            KT + " with an allocation ledger; bounded native teardown histories", "DESIGN.md 5 C17"),
    "C18": (True, "proof",
            "From states in which the others are frozen anywhere (arbitrary pins, unpublished claims, stale cache) one try operation run alone returns within a fixed number (<= 24) of its own shared-memory operations and reaches no lock, condition variable, yield, sleep or wait strategy. compare_exchange_weak is modelled without spurious failure.",
            "Kani harnesses with unwinding assertions and a step counter in the atomic shim", "DESIGN.md 5 C18"),
    "C19": (True, "other",
            "Trait-bound obligations discharged by rustc's trait solver on generated probe items for all 12 handle types x {i32, Cell<i32>, Rc<i32>} x {fn pointer, Box<dyn FnMut>}: Send exactly when the property says so, never Sync. A statically discharged precondition (the callee's `T: Send` bound), not a Verus/Kani proof - hence level 'other'.",
            "compile probes: rustc trait solver on generated positive/negative trait-bound items", "DESIGN.md 4 X, 5 C19"),
}

PENDING_REASON = "check not yet built in this round of work (planned, see DESIGN.md §5); nothing is claimed for it yet"


def main():
    head = subprocess.run(["git", "-C", "/repo", "log", "--format=%h %s"], capture_output=True, text=True).stdout.strip().split("\n")
    hook_commits = [l.split()[0] for l in head if "verif hook" in l]
    checks = []
    na = []
    for prop in catalog.ALL_PROPS:
        ent = P.get(prop)
        if not ent or not ent[0]:
            reason = ent[2] if ent else PENDING_REASON
            na.append({"property_id": prop, "reason": reason})
            continue
        _, cat, text, tech, ref = ent[:5]
        checks.append({
            "property_id": prop,
            "quick_cmd": "./check %s --tier quick" % prop,
            "thorough_cmd": "./check %s --tier thorough" % prop,
            "evidence_file": "/verif/evidence/%s.json" % prop,
            "replay_cmd_template": "./check %s --replay {path}" % prop,
            "engine": "check",
            "level_claimed": {"category": cat, "text": text, "design_ref": ref},
            "level_note": COMMON_NOTE,
            "technique": tech,
        })
    m = {
        "version": 1,
        "setup_cmd": "./check --setup",
        "hooks": {
            "guard": "cargo feature multiqueue2_verif (off by default)",
            "enable": "cargo kani --features multiqueue2_verif with MULTIQUEUE2_VERIF_DIR=/verif/kani on a scratch copy of /repo's working tree (tools/kani_run.py)",
            "baseline_off_cmd": "cd /repo && cargo test --workspace --no-fail-fast --offline",
            "source_commits": hook_commits,
            "add_only": True,
        },
        "engines": [
            {"name": "check", "path": "/verif/check", "serves_properties": [c["property_id"] for c in checks],
             "kind_free_text": "driver: Verus on mechanically extracted functions (tools/extract.py), Kani contract harnesses on the real crate (tools/kani_run.py, kani/*.rs), rustc trait probes (tools/probes.py)"},
        ],
        "checks": checks,
        "not_applicable": na,
        "notes": "Family: contract-based deductive verification of the real code. See DESIGN.md. known_findings.json lists recorded and fixed defects.",
    }
    json.dump(m, open(os.path.join(VERIF, "MANIFEST.json"), "w"), indent=1)
    print("MANIFEST.json: %d checks, %d not_applicable" % (len(checks), len(na)))


if __name__ == "__main__":
    main()
