#!/usr/bin/env python3
"""Generate /verif/MANIFEST.json from the catalogue + the per-property texts below."""
import json
import os
import subprocess
import sys

VERIF = os.path.dirname(os.path.dirname(os.path.abspath(__file__)))
sys.path.insert(0, VERIF)
import catalog  # noqa: E402

COMMON_NOTE = ("Trusted: rustc; Verus+Z3 and vstd's std specs (atomics havoc); Kani/CBMC with sequentially consistent "
               "single-thread atomics (memory orderings NOT verified); futures-0.1 stub under Kani; shim types of "
               "kani/verif_hooks.rs; assumption A-wrap (no 63-bit counter wrap inside one call). Kani obligations are complete "
               "for the stated ring size / stream count (every loop closed by an unwinding assertion) and unbounded in counters, "
               "payloads and history (arbitrary well-formed start state); they are never reported as unbounded in N.")

# property -> (claimed?, level category, text, technique, design_ref, extra note)
P = {
    "C01": (True, "proof",
            "Contracts on the real ring operations: from an ARBITRARY well-formed queue state (symbolic 63-bit counters, positions, stale cache, payloads) "
            "an accepted send appends exactly the sent instance under its count, a refused send hands the same instance back and changes nothing, a receive "
            "returns payload[cursor] and advances the cursor by exactly one (clone for broadcast, the instance itself for move-out). By induction over "
            "operations this is exactly-once per stream for every sequential history; index/tag algebra is proved for every ring size in Verus.",
            "Verus contracts on extracted countedindex/ReadAttempt functions + Kani contract harnesses (pre/post over an abstraction function) on the real crate",
            "DESIGN.md §4 (P, L2, L3, S1-S4), §5 C01"),
    "C02": (True, "proof",
            "The delivery order is the claim count: S-contracts show every accepted send takes the next count and every stream hands out payload[cursor] with "
            "cursor moving +1; lemma_commit_advances / lemma_tag_names_count (Verus, all N) give uniqueness of the count a tag names.",
            "Verus lemmas + Kani contract harnesses on the real crate", "DESIGN.md §5 C02"),
    "C03": (True, "proof",
            "get_valid_wrap = next power of two (min 1) for all inputs (Verus + full-domain Kani twin); the writer's full test fires exactly at ring distance N "
            "for every valid N (Verus bit-vector lemma); from an arbitrary well-formed state try_send_single/multi accept iff head - min position < N and never "
            "overwrite an unconsumed slot (Kani, N in {1,2} quick, 4 thorough), including with a stale cached tail.",
            "Verus contracts/lemmas (unbounded N) + Kani contract harnesses on the real crate", "DESIGN.md §5 C03"),
    "C06": (True, "proof",
            "Quiescent part: from ANY well-formed state (which is what remains once in-flight operations have returned) sends are refused iff the model is full and "
            "receives report Empty iff the stream is drained; every operation re-establishes well-formedness (no pin left, cache within [head-N, min]).",
            "Kani contract harnesses on the real crate from arbitrary well-formed states", "DESIGN.md §5 C06"),
    "C19": (True, "other",
            "Trait-bound obligations discharged by rustc's trait solver on generated probe items for all 12 handle types x {i32, Cell<i32>, Rc<i32>} x "
            "{fn pointer, Box<dyn FnMut>}: Send exactly when the property says so, never Sync. A statically discharged precondition (the callee's `T: Send` "
            "bound), not a Verus/Kani proof - hence level 'other'.",
            "compile probes: rustc trait solver on generated positive/negative trait-bound items", "DESIGN.md §4 X, §5 C19"),
}

PENDING_REASON = "check not yet built in this round of work (planned, see DESIGN.md §5); nothing is claimed for it yet"


def main():
    head = subprocess.run(["git", "-C", "/repo", "log", "--format=%h %s"], capture_output=True, text=True).stdout.strip().split("\n")
    hook_commits = [l.split()[0] for l in head if "verif hook" in l]
    checks = []
    na = []
    for prop in catalog.ALL_PROPS:
        ent = P.get(prop)
        if not ent or not ent[0]:
            reason = ent[2] if ent else PENDING_REASON
            na.append({"property_id": prop, "reason": reason})
            continue
        _, cat, text, tech, ref = ent[:5]
        checks.append({
            "property_id": prop,
            "quick_cmd": "./check %s --tier quick" % prop,
            "thorough_cmd": "./check %s --tier thorough" % prop,
            "evidence_file": "/verif/evidence/%s.json" % prop,
            "replay_cmd_template": "./check %s --replay {path}" % prop,
            "engine": "check",
            "level_claimed": {"category": cat, "text": text, "design_ref": ref},
            "level_note": COMMON_NOTE,
            "technique": tech,
        })
    m = {
        "version": 1,
        "setup_cmd": "./check --setup",
        "hooks": {
            "guard": "cargo feature multiqueue2_verif (off by default)",
            "enable": "cargo kani --features multiqueue2_verif with MULTIQUEUE2_VERIF_DIR=/verif/kani on a scratch copy of /repo's working tree (tools/kani_run.py)",
            "baseline_off_cmd": "cd /repo && cargo test --workspace --no-fail-fast --offline",
            "source_commits": hook_commits,
            "add_only": True,
        },
        "engines": [
            {"name": "check", "path": "/verif/check", "serves_properties": [c["property_id"] for c in checks],
             "kind_free_text": "driver: Verus on mechanically extracted functions (tools/extract.py), Kani contract harnesses on the real crate (tools/kani_run.py, kani/*.rs), rustc trait probes (tools/probes.py)"},
        ],
        "checks": checks,
        "not_applicable": na,
        "notes": "Family: contract-based deductive verification of the real code. See DESIGN.md. known_findings.json lists recorded and fixed defects.",
    }
    json.dump(m, open(os.path.join(VERIF, "MANIFEST.json"), "w"), indent=1)
    print("MANIFEST.json: %d checks, %d not_applicable" % (len(checks), len(na)))


if __name__ == "__main__":
    main()
