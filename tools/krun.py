#!/usr/bin/env python3
"""ad-hoc: run catalogue harnesses by (regex on) short name and print a table.
usage: krun.py [-j N] [--reach] [--timeout S] <regex>..."""
import os
import re
import sys
import time

sys.path.insert(0, os.path.dirname(os.path.dirname(os.path.abspath(__file__))))
sys.path.insert(0, os.path.dirname(os.path.abspath(__file__)))
import catalog
import kani_run

if __name__ == "__main__":
    args = sys.argv[1:]
    jobs, reach, to = 16, False, 3600
    pats = []
    while args:
        a = args.pop(0)
        if a == "-j":
            jobs = int(args.pop(0))
        elif a == "--reach":
            reach = True
        elif a == "--timeout":
            to = int(args.pop(0))
        else:
            pats.append(a)
    names = [n for n in catalog.KANI if any(re.search(p, n) for p in pats)]
    t0 = time.time()
    res, meta = kani_run.run_harnesses([catalog.KANI[n]["qual"] for n in names], jobs=jobs, reach_checks=reach, timeout_s=to)
    if meta.get("compile_error"):
        print("COMPILE ERROR\n" + meta["compile_error"])
    for n in names:
        r = res[catalog.KANI[n]["qual"]]
        print("%-40s %-8s %6s s  checks=%s covers=%s" % (n, r["status"], "%.0f" % r["time_s"] if r.get("time_s") else "-", r.get("checks"), r.get("covers")))
        for fc in r.get("failed_checks", []):
            print("      FAILED: %s  [%s:%s]" % (fc["desc"], os.path.basename(fc["file"]), fc["line"]))
        if r["status"] in ("missing", "unknown", "error"):
            print("      raw tail: " + (r.get("raw") or meta.get("tail", ""))[-600:].replace("\n", "\n        "))
    print("wall %.0fs" % (time.time() - t0))
