"""Layer P/L: extract the real functions from /repo/src, insert the contracts, run Verus."""
import json
import os
import re
import subprocess
import sys
import tempfile
import time

VERIF = os.path.dirname(os.path.dirname(os.path.abspath(__file__)))
REPO = os.environ.get("MQ2_REPO", "/repo")
sys.path.insert(0, os.path.join(VERIF, "tools"))
import extract  # noqa: E402


class InfraError(Exception):
    pass


def run(spec="verus/contracts/core.vspec", keep_to=None):
    """Returns dict: {functions: [{name, ok, time_us, mode}], verified, errors, stderr, extract_report, wall_s, cmd}"""
    t0 = time.time()
    specpath = os.path.join(VERIF, spec)
    try:
        text, report = extract.extract(os.path.join(REPO, "src"), specpath)
    except extract.ExtractError as e:
        raise InfraError("extraction failed (lost anchor / unsupported construct): %s" % e)
    gen_dir = os.path.join(VERIF, ".cache", "gen")
    os.makedirs(gen_dir, exist_ok=True)
    name = os.path.splitext(os.path.basename(spec))[0]
    src = os.path.join(gen_dir, "verus_%s.rs" % name)
    open(src, "w").write(text)
    with tempfile.TemporaryDirectory(prefix="mq2-verus-") as td:
        cmd = ["verus", src, "--output-json", "--time", "--crate-name", "gen"]
        r = subprocess.run(cmd, cwd=td, capture_output=True, text=True, timeout=900)
    out = r.stdout
    # the JSON document is the last top-level object on stdout
    i = out.find("{")
    data = None
    if i >= 0:
        try:
            data = json.loads(out[i:])
        except Exception:
            data = None
    if data is None:
        raise InfraError("verus produced no JSON: rc=%s\n%s" % (r.returncode, (out + r.stderr)[-2000:]))
    vr = data.get("verification-results", {})
    funcs = []
    smt = data.get("times-ms", {}).get("smt", {})
    for mod in smt.get("smt-run-module-times", []):
        for f in mod.get("function-breakdown", []):
            funcs.append({"name": f["function"], "ok": bool(f.get("success")), "time_us": f.get("time-micros", 0),
                          "mode": f.get("mode:", f.get("mode", ""))})
    errs = []
    # human-readable diagnostics (stderr): keep "error: ..." blocks with their location
    for m in re.finditer(r"^error[^\n]*\n(?:[^\n]*\n){0,14}", r.stderr, re.M):
        blk = m.group(0)
        if "aborting due to" in blk:
            continue
        errs.append(blk.strip()[:1500])
    if vr.get("encountered-vir-error") or ("verified" not in vr):
        raise InfraError("verus front-end error (unsupported construct?):\n" + r.stderr[-3000:])
    return {
        "functions": funcs,
        "verified": vr.get("verified", 0),
        "errors": vr.get("errors", 0),
        "error_text": errs,
        "stderr_tail": r.stderr[-4000:],
        "extract_report": report,
        "generated": src,
        "wall_s": time.time() - t0,
        "total_smt_ms": smt.get("total", None),
        "cmd": "tools/extract.py --spec %s && verus <generated> --output-json --time" % spec,
        "verus_version": data.get("verus", {}).get("version"),
    }


def scan_assumptions(spec="verus/contracts/core.vspec"):
    """mechanical scan for assume/admit/external_body/assume_specification in the spec file"""
    txt = open(os.path.join(VERIF, spec)).read()
    out = []
    for kw in ("assume_specification", "external_body", "admit(", "assume(", "#[verifier::external"):
        for m in re.finditer(re.escape(kw) + r"[^\n]*", txt):
            out.append(m.group(0).strip()[:160])
    return out
