"""Minimal Rust lexer / item locator used by the mechanical extractor.

Not a parser: it tokenises (comments, strings, chars/lifetimes, idents, numbers, punctuation),
matches braces/parens/brackets, and locates items (fn/struct/enum/const/type/impl/mod/trait/use)
at a given nesting level.  Everything the extractor emits is a *byte range of the source file*;
this module only finds the ranges.
"""
import re

TOKEN_RE = re.compile(r'''
    (?P<lcomment>//[^\n]*)
  | (?P<bcomment>/\*.*?\*/)
  | (?P<rawstr>r(?P<h>\#*)".*?"(?P=h))
  | (?P<str>b?"(?:\\.|[^"\\])*")
  | (?P<char>b?'(?:\\(?:x[0-9a-fA-F]{2}|u\{[0-9a-fA-F]+\}|.)|[^'\\])')
  | (?P<lifetime>'[A-Za-z_][A-Za-z0-9_]*)
  | (?P<ident>[A-Za-z_][A-Za-z0-9_]*)
  | (?P<num>[0-9][0-9A-Za-z_\.]*)
  | (?P<punct>::|->|=>|==|!=|<=|>=|&&|\|\||<<|>>|\.\.=|\.\.|[-+*/%^!&|=<>@.,;:\#$?~(){}\[\]])
  | (?P<ws>\s+)
''', re.S | re.X)


class Tok:
    __slots__ = ("kind", "text", "start", "end")

    def __init__(self, kind, text, start, end):
        self.kind, self.text, self.start, self.end = kind, text, start, end

    def __repr__(self):
        return "Tok(%s,%r,%d)" % (self.kind, self.text, self.start)


def lex(src):
    toks = []
    pos = 0
    n = len(src)
    while pos < n:
        m = TOKEN_RE.match(src, pos)
        if not m:
            raise ValueError("lex error at %d: %r" % (pos, src[pos:pos + 30]))
        kind = m.lastgroup
        if kind == "h":
            kind = "rawstr"
        toks.append(Tok(kind, m.group(0), pos, m.end()))
        pos = m.end()
    return toks


def code_tokens(toks):
    """tokens without whitespace and comments"""
    return [t for t in toks if t.kind not in ("ws", "lcomment", "bcomment")]


OPEN = {"(": ")", "[": "]", "{": "}"}
CLOSE = {v: k for k, v in OPEN.items()}


def match_close(ct, i):
    """ct[i] is an opening bracket; return index of its matching close"""
    depth = 0
    j = i
    while j < len(ct):
        t = ct[j].text
        if ct[j].kind == "punct":
            if t in OPEN:
                depth += 1
            elif t in CLOSE:
                depth -= 1
                if depth == 0:
                    return j
        j += 1
    raise ValueError("unbalanced bracket at %d" % ct[i].start)


ITEM_KW = ("fn", "struct", "enum", "const", "type", "impl", "mod", "trait", "use", "static", "extern")


class Item:
    """One item: attrs (list of (start,end) source ranges), kind, name, header range, body range."""

    def __init__(self):
        self.kind = None
        self.name = None
        self.start = None      # first byte including attributes / doc comments excluded
        self.attr_ranges = []  # [(s,e)] of #[...] attributes
        self.decl_start = None  # first byte of visibility/keyword
        self.body_open = None  # byte offset of '{' (or None for ';' items)
        self.body_close = None  # byte offset just after matching '}'
        self.end = None        # byte offset just after the item
        self.children = []     # for impl / mod
        self.impl_target = None
        self.impl_trait = None


def parse_items(src, lo=0, hi=None):
    """Locate the items in src[lo:hi] (one nesting level)."""
    if hi is None:
        hi = len(src)
    toks = [t for t in lex(src[lo:hi])]
    for t in toks:
        t.start += lo
        t.end += lo
    ct = code_tokens(toks)
    items = []
    i = 0
    while i < len(ct):
        it = Item()
        it.start = ct[i].start
        # attributes
        while i < len(ct) and ct[i].text == "#":
            j = i + 1
            if ct[j].text == "!":
                j += 1
            assert ct[j].text == "[", "attribute"
            k = match_close(ct, j)
            it.attr_ranges.append((ct[i].start, ct[k].end))
            i = k + 1
        if i >= len(ct):
            break
        it.decl_start = ct[i].start
        # visibility and qualifiers
        j = i
        while j < len(ct) and ct[j].text in ("pub", "unsafe", "default", "async"):
            j += 1
            if ct[j - 1].text == "pub" and ct[j].text == "(":
                j = match_close(ct, j) + 1
        if j < len(ct) and ct[j].text == "extern" and ct[j + 1].kind == "str":
            j += 2
        if j >= len(ct) or ct[j].text not in ITEM_KW:
            if ct[j].kind == "ident" and ct[j + 1].text == "!":
                # macro invocation item
                k = j + 2
                if ct[k].kind == "ident":
                    k += 1
                e = match_close(ct, k)
                it.kind = "macro"
                it.name = ct[j].text
                it.end = ct[e].end
                i = e + 1
                if i < len(ct) and ct[i].text == ";":
                    it.end = ct[i].end
                    i += 1
                items.append(it)
                continue
            raise ValueError("unexpected token %r at %d" % (ct[j].text, ct[j].start))
        kw = ct[j].text
        it.kind = kw
        if kw == "const" and ct[j + 1].text == "fn":
            j += 1
            kw = it.kind = "fn"
        if kw == "extern":
            # extern crate x;
            k = j
            while ct[k].text != ";":
                k += 1
            it.kind = "extern"
            it.name = ct[k - 1].text
            it.end = ct[k].end
            i = k + 1
            items.append(it)
            continue
        if kw == "impl":
            # impl<...> [Trait for] Type [where ...] { ... }
            k = j + 1
            if ct[k].text == "<":
                depth = 0
                while True:
                    if ct[k].text == "<":
                        depth += 1
                    elif ct[k].text == ">":
                        depth -= 1
                    elif ct[k].text == ">>":
                        depth -= 2
                    elif ct[k].text == "->":
                        pass
                    k += 1
                    if depth == 0:
                        break
            hdr = []
            while ct[k].text != "{":
                hdr.append(ct[k])
                k += 1
            txt = [h.text for h in hdr]
            if "for" in txt and not (txt[0] == "for"):
                f = txt.index("for")
                # 'for<'r>' HRTB inside bounds would confuse; accept the first top-level for
                it.impl_trait = "".join(txt[:f])
                tgt = hdr[f + 1:]
            else:
                tgt = hdr
            # target name = first ident not '&' / lifetime
            name = None
            for h in tgt:
                if h.kind == "ident" and h.text not in ("dyn", "mut"):
                    name = h.text
                    break
            it.impl_target = name
            it.name = name
            e = match_close(ct, k)
            it.body_open = ct[k].start
            it.body_close = ct[e].end
            it.end = ct[e].end
            it.children = parse_items(src, ct[k].end, ct[e].start)
            i = e + 1
            items.append(it)
            continue
        if kw == "use":
            k = j
            while ct[k].text != ";":
                k += 1
            it.name = "".join(t.text for t in ct[j + 1:k])
            it.end = ct[k].end
            i = k + 1
            items.append(it)
            continue
        it.name = ct[j + 1].text
        # find body '{' or terminating ';' at bracket depth 0 (angle brackets ignored: generics
        # cannot contain '{' or ';' outside of const-generic blocks, not used here)
        k = j + 2
        while True:
            t = ct[k].text
            if ct[k].kind == "punct" and t in ("(", "["):
                k = match_close(ct, k) + 1
                continue
            if t == "{":
                e = match_close(ct, k)
                it.body_open = ct[k].start
                it.body_close = ct[e].end
                it.end = ct[e].end
                i = e + 1
                if kw in ("mod", "trait"):
                    it.children = parse_items(src, ct[k].end, ct[e].start)
                break
            if t == ";":
                it.end = ct[k].end
                i = k + 1
                break
            if t == "=" and kw in ("const", "static", "type"):
                # skip expression to ';' at depth 0
                while True:
                    t2 = ct[k].text
                    if ct[k].kind == "punct" and t2 in OPEN:
                        k = match_close(ct, k) + 1
                        continue
                    if t2 == ";":
                        break
                    k += 1
                it.end = ct[k].end
                i = k + 1
                break
            k += 1
        items.append(it)
    return items


def find_loops(src, lo, hi):
    """byte offsets of the '{' opening each loop/while/for body in src[lo:hi], in source order"""
    toks = lex(src[lo:hi])
    ct = code_tokens(toks)
    out = []
    i = 0
    while i < len(ct):
        t = ct[i]
        if t.kind == "ident" and t.text in ("loop", "while", "for"):
            if t.text == "for" and i + 1 < len(ct) and ct[i + 1].text == "<":
                i += 1
                continue
            k = i + 1
            while True:
                tt = ct[k].text
                if ct[k].kind == "punct" and tt in ("(", "["):
                    k = match_close(ct, k) + 1
                    continue
                if tt == "{":
                    break
                k += 1
            out.append(ct[k].start + lo)
        i += 1
    return out
