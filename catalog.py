"""Obligation catalogue: which machine-checked obligation serves which property, in which tier.

An obligation is either
  * a Verus function / lemma of the generated file (layer P, L)   -- id "verus:<fn>"
  * a Kani proof harness on the real crate (layers Pk, S, I, T)     -- id "kani:<harness>"
  * a compile probe (layer X)                                        -- id "probe:<name>"
Assertion messages inside harnesses start with the ids of the properties they decide
("C01/C02: ..."); a failed check counts against a property only if it carries that id or no id.
"""

# ------------------------------------------------------------------------------------------------
# Verus (layer P: contracts on extracted functions; layer L: lemmas).  fn name -> properties
VERUS = {
    # layer P
    "past": ["C03", "C08", "C11", "C06"],
    "is_tagged": ["C01", "C05", "C07"],
    "rm_tag": ["C01", "C02", "C07", "C08"],
    "get_valid_wrap": ["C03", "C09"],
    "validate_wrap": ["C03", "C09"],
    "CountedIndex::new": ["C03", "C09"],
    "CountedIndex::from_usize": ["C03", "C09", "C10"],
    "CountedIndex::wrap_at": ["C10"],
    "CountedIndex::load": ["C09"],
    "CountedIndex::load_raw": ["C10"],
    "CountedIndex::load_count": ["C08"],
    "CountedIndex::load_transaction": ["C01", "C02"],
    "CountedIndex::get_previous": ["C03", "C06", "C11"],
    "Transaction::get": ["C01", "C02", "C04"],
    "Transaction::matches_previous": ["C03", "C06"],
    "Transaction::commit": ["C01", "C02", "C12"],
    "Transaction::commit_direct": ["C01", "C02", "C12"],
    "Transaction::reload": ["C01", "C02"],
    "LoadedSignal::has_action": ["C13", "C16"],
    "LoadedSignal::get_epoch": ["C16"],
    "LoadedSignal::get_reader": ["C13"],
    "ReadAttempt::get": ["C01", "C02", "C04"],
    "ReadAttempt::commit_attempt": ["C01", "C12"],
    "ReadAttempt::reload": ["C01", "C12"],
    "ReadAttempt::commit_direct": ["C01", "C12"],
    "MASK_IND": ["C01", "C03"],
    "MASK_TAG": ["C01", "C03"],
    "MAX_WRAP": ["C03"],
    "INITIAL_QUEUE_FLAG": ["C01", "C05"],
    "UPDATE_EPOCH": ["C16"],
    "NO_READER": ["C13"],
    # layer L
    "lemma_wsub_bv": ["C03"],
    "lemma_wadd_bv": ["C03"],
    "lemma_and_le": ["C01", "C03"],
    "lemma_pow2_one": ["C03"],
    "lemma_tag_arith": ["C01", "C03", "C07", "C08"],
    "lemma_initial_flag_is_tagged": ["C01", "C05"],
    "lemma_full_test_is_distance_n": ["C03", "C06"],
    "lemma_full_test_nowrap": ["C03", "C06"],
    "lemma_slot_injective": ["C01", "C03", "C04"],
    "lemma_tag_names_count": ["C01", "C02", "C04"],
    "lemma_index_in_ring": ["C01", "C04", "C16"],
    "lemma_min_is_head_minus_maxdiff": ["C03", "C11"],
    "lemma_check_meaning": ["C08"],
    "lemma_norm_cap_small": ["C03", "C09"],
    "lemma_commit_advances": ["C01", "C02"],
}

# ------------------------------------------------------------------------------------------------
# Kani harnesses.  name -> dict(mod=<module path>, layer, label, props, tier, bounds)
KANI = {}


def _k(name, mod, layer, props, tier, bounds, label=None):
    KANI[name] = {
        "qual": "%s::%s" % (mod, name),
        "layer": layer,
        "props": props,
        "tier": tier,  # "quick": run in both tiers; "thorough": thorough only
        "bounds": bounds,
        "label": label or ("proved-unbounded" if layer == "Pk" else "proved-for-stated-bounds"),
    }


CI = "countedindex::verif_contracts::proofs"
MQ_S = "multiqueue::verif_contracts::proofs_s"

# Pk: loop-free, full 64-bit domain => complete proofs (also the counterexample source for layer P)
_k("p1_past", CI, "Pk", ["C03", "C08", "C11"], "quick", "all 2^128 inputs")
_k("p2_p3_tag_bits", CI, "Pk", ["C01", "C05", "C07"], "quick", "all 2^64 inputs")
_k("p4_get_valid_wrap", CI, "Pk", ["C03", "C09"], "quick", "all 2^64 inputs")
_k("p5_constructors", CI, "Pk", ["C03", "C09", "C10"], "quick", "every power-of-two wrap <= 2^61, every start value")
_k("p6_p7_p8_transaction_reads", CI, "Pk", ["C01", "C02", "C03", "C06"], "quick", "every valid wrap, every counter, every cached tail")
_k("p9_commit", CI, "Pk", ["C01", "C02", "C12"], "quick", "every valid wrap / counter / increment / interfering value")
_k("p9_commit_direct_reload", CI, "Pk", ["C01", "C02", "C12"], "quick", "every valid wrap / counter / increment")
_k("p_cover_wraps", CI, "Pk", ["C03"], "thorough", "vacuity guard for the wrap assumption")

# S1/S2/S3: ring operations from an arbitrary well-formed state
for (n, k, tier) in ((1, 2, "quick"), (2, 2, "quick"), (4, 3, "thorough")):
    b = "N=%d, %d streams, <=3 consumers/stream; head, positions, cache, payloads symbolic" % (n, k)
    _k("s1_send_single_bcast_n%d" % n, MQ_S, "S", ["C01", "C02", "C03", "C05", "C06", "C09"], tier, b)
    _k("s2_send_multi_bcast_n%d" % n, MQ_S, "S", ["C01", "C02", "C03", "C05", "C06", "C09", "C12"], tier, b)
    _k("s3_recv_bcast_n%d" % n, MQ_S, "S", ["C01", "C02", "C04", "C05", "C06", "C07", "C09"], tier, b)
for (n, tier) in ((1, "quick"), (2, "quick"), (4, "thorough")):
    b = "N=%d, 1 stream, <=3 consumers; head, position, cache, payloads symbolic" % n
    _k("s1_send_single_mpmc_n%d" % n, MQ_S, "S", ["C01", "C02", "C03", "C05", "C06", "C09"], tier, b)
    _k("s2_send_multi_mpmc_n%d" % n, MQ_S, "S", ["C01", "C02", "C03", "C05", "C06", "C09", "C12"], tier, b)
    _k("s3_recv_mpmc_n%d" % n, MQ_S, "S", ["C01", "C02", "C04", "C05", "C06", "C07", "C09"], tier, b)

# ------------------------------------------------------------------------------------------------
# compile probes (layer X) are generated by tools/probes.py; all serve C19
PROBE_PROPS = ["C19"]

ALL_PROPS = ["C%02d" % i for i in range(1, 20)]

# properties whose quick tier would otherwise be too slow: cap on harnesses is applied in check
TITLES = {}


def verus_for(prop):
    return sorted(f for f, ps in VERUS.items() if prop in ps)


def kani_for(prop, tier):
    out = []
    for name, h in KANI.items():
        if prop in h["props"] and (tier == "thorough" or h["tier"] == "quick"):
            out.append(name)
    return sorted(out)
