"""Obligation catalogue: which machine-checked obligation serves which property, in which tier.

An obligation is either
  * a Verus function / lemma of the generated file (layer P, L)   -- id "verus:<fn>"
  * a Kani proof harness on the real crate (layers Pk, S, I, T)     -- id "kani:<harness>"
  * a compile probe (layer X)                                        -- id "probe:<name>"
Assertion messages inside harnesses start with the ids of the properties they decide
("C01/C02: ..."); a failed check counts against a property only if it carries that id or no id.
"""

# ------------------------------------------------------------------------------------------------
# Verus (layer P: contracts on extracted functions; layer L: lemmas).  fn name -> properties
VERUS = {
    # layer P
    "past": ["C03", "C08", "C11", "C06"],
    "is_tagged": ["C01", "C05", "C07"],
    "rm_tag": ["C01", "C02", "C07", "C08"],
    "get_valid_wrap": ["C03", "C09"],
    "validate_wrap": ["C03", "C09"],
    "CountedIndex::new": ["C03", "C09"],
    "CountedIndex::from_usize": ["C03", "C09", "C10"],
    "CountedIndex::wrap_at": ["C10"],
    "CountedIndex::load": ["C09"],
    "CountedIndex::load_raw": ["C10"],
    "CountedIndex::load_count": ["C08"],
    "CountedIndex::load_transaction": ["C01", "C02"],
    "CountedIndex::get_previous": ["C03", "C06", "C11"],
    "Transaction::get": ["C01", "C02", "C04"],
    "Transaction::matches_previous": ["C03", "C06"],
    "Transaction::commit": ["C01", "C02", "C12"],
    "Transaction::commit_direct": ["C01", "C02", "C12"],
    "Transaction::reload": ["C01", "C02"],
    "LoadedSignal::has_action": ["C13", "C16"],
    "LoadedSignal::get_epoch": ["C16"],
    "LoadedSignal::get_reader": ["C13"],
    "ReadAttempt::get": ["C01", "C02", "C04"],
    "ReadAttempt::commit_attempt": ["C01", "C12"],
    "ReadAttempt::reload": ["C01", "C12"],
    "ReadAttempt::commit_direct": ["C01", "C12"],
    "MASK_IND": ["C01", "C03"],
    "MASK_TAG": ["C01", "C03"],
    "MAX_WRAP": ["C03"],
    "INITIAL_QUEUE_FLAG": ["C01", "C05"],
    "UPDATE_EPOCH": ["C16"],
    "NO_READER": ["C13"],
    # layer L
    "lemma_wsub_bv": ["C03"],
    "lemma_wadd_bv": ["C03"],
    "lemma_and_le": ["C01", "C03"],
    "lemma_pow2_one": ["C03"],
    "lemma_tag_arith": ["C01", "C03", "C07", "C08"],
    "lemma_initial_flag_is_tagged": ["C01", "C05"],
    "lemma_full_test_is_distance_n": ["C03", "C06"],
    "lemma_full_test_nowrap": ["C03", "C06"],
    "lemma_slot_injective": ["C01", "C03", "C04"],
    "lemma_tag_names_count": ["C01", "C02", "C04"],
    "lemma_index_in_ring": ["C01", "C04", "C16"],
    "lemma_min_is_head_minus_maxdiff": ["C03", "C11"],
    "lemma_check_meaning": ["C08"],
    "lemma_norm_cap_small": ["C03", "C09"],
    "lemma_commit_advances": ["C01", "C02"],
}

# ------------------------------------------------------------------------------------------------
# Kani harnesses.  name -> dict(mod=<module path>, layer, label, props, tier, bounds)
KANI = {}


def _k(name, mod, layer, props, tier, bounds, label=None, unwind_props=None):
    KANI[name] = {
        "unwind_props": unwind_props or [],  # properties for which "loop does not terminate" IS the violation
        "qual": "%s::%s" % (mod, name),
        "layer": layer,
        "props": props,
        "tier": tier,  # "quick": run in both tiers; "thorough": thorough only
        "bounds": bounds,
        "label": label or ("proved-unbounded" if layer == "Pk" else "proved-for-stated-bounds"),
    }


CI = "countedindex::verif_contracts::proofs"
MQ_S = "multiqueue::verif_contracts::proofs_s"

# Pk: loop-free, full 64-bit domain => complete proofs (also the counterexample source for layer P)
_k("p1_past", CI, "Pk", ["C03", "C08", "C11"], "quick", "all 2^128 inputs")
_k("p2_p3_tag_bits", CI, "Pk", ["C01", "C05", "C07"], "quick", "all 2^64 inputs")
_k("p4_get_valid_wrap", CI, "Pk", ["C03", "C09"], "quick", "all 2^64 inputs")
_k("p5_constructors", CI, "Pk", ["C03", "C09", "C10"], "quick", "every power-of-two wrap <= 2^61, every start value")
_k("p6_p7_p8_transaction_reads", CI, "Pk", ["C01", "C02", "C03", "C06"], "quick", "every valid wrap, every counter, every cached tail")
_k("p9_commit", CI, "Pk", ["C01", "C02", "C12"], "quick", "every valid wrap / counter / increment / interfering value")
_k("p9_commit_direct_reload", CI, "Pk", ["C01", "C02", "C12"], "quick", "every valid wrap / counter / increment")
_k("p_cover_wraps", CI, "Pk", ["C03"], "thorough", "vacuity guard for the wrap assumption")
_k("p12_std_pow2_specs", CI, "Pk", ["C03", "C09"], "quick", "all 2^64 inputs; discharges the two std contracts the Verus layer assumes")

# S1/S2/S3: ring operations from an arbitrary well-formed state
for (n, k, tier) in ((1, 2, "quick"), (2, 2, "quick"), (4, 3, "thorough")):
    b = "N=%d, %d streams, <=3 consumers/stream; head, positions, cache, payloads symbolic" % (n, k)
    _k("s1_send_single_bcast_n%d" % n, MQ_S, "S", ["C01", "C02", "C03", "C05", "C06", "C09"], tier, b)
    _k("s2_send_multi_bcast_n%d" % n, MQ_S, "S", ["C01", "C02", "C03", "C05", "C06", "C09", "C12"], tier, b)
    _k("s3_recv_bcast_n%d" % n, MQ_S, "S", ["C01", "C02", "C04", "C05", "C06", "C07", "C09"], tier, b)
for (n, tier) in ((1, "quick"), (2, "quick"), (4, "thorough")):
    b = "N=%d, 1 stream, <=3 consumers; head, position, cache, payloads symbolic" % n
    _k("s1_send_single_mpmc_n%d" % n, MQ_S, "S", ["C01", "C02", "C03", "C05", "C06", "C09"], tier, b)
    _k("s2_send_multi_mpmc_n%d" % n, MQ_S, "S", ["C01", "C02", "C03", "C05", "C06", "C09", "C12"], tier, b)
    _k("s3_recv_mpmc_n%d" % n, MQ_S, "S", ["C01", "C02", "C04", "C05", "C06", "C07", "C09"], tier, b)

# S1p/S2p: a producer never claims a pinned slot
for (nm, tier) in (("s1p_send_single_pinned_n2", "quick"), ("s2p_send_multi_pinned_n2", "quick"), ("s1p_send_single_pinned_n4", "thorough"), ("s2p_send_multi_pinned_n4", "thorough")):
    _k(nm, MQ_S, "S", ["C04", "C12", "C06"], tier, nm[-2:].upper().replace("N", "N=") + ", 2 streams; arbitrary wf state plus one sibling pin on the slot of the next claim")

# S4 view on a sole-consumer stream
for (fl, ns) in (("bcast", ((1, "quick"), (2, "quick"), (4, "thorough"))), ("mpmc", ((1, "quick"), (2, "quick"), (4, "thorough")))):
    for (n, tier) in ns:
        _k("s4_view_%s_n%d" % (fl, n), MQ_S, "S", ["C01", "C02", "C04", "C05", "C06", "C07", "C09"], tier,
           "N=%d, %s; sole consumer; head, positions, payloads symbolic" % (n, "<=3 streams" if fl == "bcast" else "1 stream"))

# S7 InnerSend::try_send
_k("s7_inner_send_bcast_n2_k0", MQ_S, "S", ["C13", "C09", "C16", "C17"], "quick", "N=2, no stream left; signals symbolic")
_k("s7_inner_send_mpmc_n2_k0", MQ_S, "S", ["C13", "C09", "C16", "C17"], "quick", "N=2, no stream left; signals symbolic")
for (nm, tier) in (("bcast_n1_k1", "quick"), ("bcast_n2_k2", "quick"), ("bcast_n4_k2", "thorough"),
                   ("mpmc_n1_k1", "thorough"), ("mpmc_n2_k1", "quick"), ("mpmc_n4_k1", "thorough")):
    _k("s7_inner_send_" + nm, MQ_S, "S", ["C01", "C03", "C05", "C09", "C12", "C16", "C17", "C08", "C14"], tier,
       nm + "; handle mode, writer count, epoch flag, notify flag symbolic")

# S8 InnerRecv entry points (blocking forms under the scripted wake-up)
for (nm, tier, props) in (
        ("try_recv_bcast_n2", "quick", ["C01", "C07", "C09", "C16", "C18", "C17"]),
        ("recv_bcast_n1", "thorough", ["C01", "C07", "C08", "C09", "C16", "C17"]),
        ("recv_bcast_n2", "quick", ["C01", "C07", "C08", "C09", "C16", "C17"]),
        ("recv_bcast_n4", "thorough", ["C01", "C07", "C08", "C09", "C16", "C17"]),
        ("try_view_bcast_n2", "quick", ["C01", "C04", "C07", "C09", "C18", "C16", "C17"]),
        ("recv_view_bcast_n2", "quick", ["C01", "C04", "C07", "C08", "C09", "C16", "C17"]),
        ("try_recv_mpmc_n2", "quick", ["C01", "C07", "C09", "C16", "C18", "C17"]),
        ("recv_mpmc_n1", "thorough", ["C01", "C07", "C08", "C09", "C16", "C17"]),
        ("recv_mpmc_n2", "quick", ["C01", "C07", "C08", "C09", "C16", "C17"]),
        ("recv_mpmc_n4", "thorough", ["C01", "C07", "C08", "C09", "C16", "C17"]),
        ("try_view_mpmc_n2", "thorough", ["C01", "C04", "C05", "C07", "C09", "C18", "C16", "C17"]),
        ("recv_view_mpmc_n2", "quick", ["C01", "C04", "C05", "C07", "C08", "C09", "C16", "C17"])):
    _k("s8_" + nm, MQ_S, "S", props, tier, nm + "; arbitrary wf state; scripted wake-up (publish one value | all senders leave)")

# S10 clone / drop / unsubscribe
for fl in ("bcast", "mpmc"):
    _k("s10_clone_send_%s_n2" % fl, MQ_S, "S", ["C01", "C02", "C03", "C07", "C09", "C12", "C16"], "quick", "N=2, 1 stream")
    _k("s10_drop_send_%s_n2" % fl, MQ_S, "S", ["C07", "C08", "C09", "C12", "C14", "C16", "C17"], "quick", "N=2, 1 stream")
    _k("s10_clone_recv_%s_n2" % fl, MQ_S, "S", ["C01", "C09", "C11", "C12", "C16"], "quick", "N=2")
_k("s10_drop_recv_bcast_n2_k1", MQ_S, "S", ["C05", "C09", "C11", "C12", "C13", "C16", "C17"], "quick", "N=2, 1 stream, <=3 consumers")
_k("s10_drop_recv_bcast_n2_k2", MQ_S, "S", ["C09", "C11", "C12", "C13", "C16", "C17"], "quick", "N=2, 2 streams, <=3 consumers each")
_k("s10_drop_recv_bcast_n2_k3", MQ_S, "S", ["C09", "C11", "C12", "C13", "C16", "C17"], "thorough", "N=2, 3 streams")
_k("s10_unsub_recv_bcast_n2_k2", MQ_S, "S", ["C09", "C11", "C12", "C16", "C17"], "quick", "N=2, 2 streams; unsubscribe()")
_k("s10_drop_recv_mpmc_n2", MQ_S, "S", ["C05", "C09", "C11", "C12", "C13", "C16", "C17"], "quick", "N=2, 1 stream")
_k("s10_unsub_recv_mpmc_n2", MQ_S, "S", ["C09", "C11", "C12", "C16", "C17"], "thorough", "N=2, 1 stream; unsubscribe()")

# S9 add_stream (sequential)
_k("s9_add_stream_bcast_n2_k1", MQ_S, "S", ["C01", "C02", "C03", "C09", "C10", "C16"], "quick", "N=2, 1 stream")
_k("s9_add_stream_bcast_n2_k2", MQ_S, "S", ["C01", "C02", "C03", "C09", "C10", "C16"], "quick", "N=2, 2 streams")
_k("s9_add_stream_bcast_n4_k2", MQ_S, "S", ["C01", "C02", "C03", "C09", "C10", "C16"], "thorough", "N=4, 2 streams")

# S11 teardown of the ring
for fl in ("bcast", "mpmc"):
    for (n, tier) in ((1, "quick"), (2, "quick"), (4, "thorough")):
        _k("s11_drop_queue_%s_n%d" % (fl, n), MQ_S, "S", ["C05", "C09", "C17"], tier,
           "N=%d; head, last position, payloads symbolic; no stream, no sender left" % n)

# S12 futures layer (spin counts concrete: s<first><yield>)
for (nm, tier, props) in (
        ("start_send_bcast_n2_k0", "quick", ["C09", "C13", "C15"]),
        ("start_send_mpmc_n2_k0", "quick", ["C09", "C13", "C15"]),
        ("start_send_bcast_n2_s00", "quick", ["C09", "C01", "C03", "C14", "C15"]),
        ("start_send_bcast_n2_s11", "thorough", ["C09", "C01", "C03", "C14", "C15"]),
        ("start_send_mpmc_n2_s00", "quick", ["C09", "C01", "C03", "C14", "C15"]),
        ("start_send_mpmc_n1_s21", "thorough", ["C09", "C01", "C03", "C14", "C15"]),
        ("poll_shared_bcast_n2_s00", "quick", ["C09", "C01", "C07", "C14", "C15"]),
        ("poll_shared_bcast_n2_s11", "thorough", ["C09", "C01", "C07", "C14", "C15"]),
        ("poll_shared_mpmc_n2_s00", "quick", ["C09", "C01", "C07", "C14", "C15"]),
        ("poll_shared_mpmc_n1_s11", "thorough", ["C09", "C01", "C07", "C14", "C15"]),
        ("poll_uni_bcast_n2_s00", "quick", ["C09", "C01", "C04", "C07", "C14", "C15"]),
        ("poll_uni_mpmc_n2_s11", "quick", ["C09", "C01", "C04", "C05", "C07", "C14", "C15"]),
        ("direct_try_recv_bcast_n2", "quick", ["C09", "C14", "C15", "C18"]),
        ("direct_try_recv_mpmc_n2", "quick", ["C09", "C14", "C15", "C18"]),
        ("direct_recv_bcast_n2", "quick", ["C09", "C14", "C15"]),
        ("direct_recv_mpmc_n2", "thorough", ["C09", "C14", "C15"]),
        ("direct_uni_try_bcast_n2", "quick", ["C09", "C14", "C15", "C18"]),
        ("direct_uni_try_mpmc_n2", "thorough", ["C09", "C14", "C15", "C18"]),
        ("direct_uni_recv_bcast_n2", "thorough", ["C09", "C14", "C15"]),
        ("direct_uni_recv_mpmc_n2", "quick", ["C09", "C14", "C15"]),
        ("recv_blocks_bcast_n2", "quick", ["C15"]),
        ("recv_blocks_mpmc_n2", "quick", ["C15"]),
        ("recv_blocks_uni_bcast_n2", "thorough", ["C15"]),
        ("drop_recv_bcast_n2", "quick", ["C11", "C13", "C14"]),
        ("drop_recv_mpmc_n2", "quick", ["C11", "C13", "C14"]),
        ("drop_unirecv_bcast_n2", "thorough", ["C11", "C13", "C14"]),
        ("drop_send_bcast_n2", "quick", ["C07", "C14"]),
        ("drop_send_mpmc_n2", "thorough", ["C07", "C14"])):
    _k("s12_" + nm, MQ_S, "S", props, tier, nm + "; arbitrary wf state; one task pre-parked on each list",
       unwind_props=(["C15"] if nm.startswith("poll_") or nm.startswith("start_send") else []))

_k("s12_into_single_bcast_n2", MQ_S, "S", ["C09", "C12", "C14", "C15"], "quick", "N=2, 2 streams, <=3 consumers; into_single on a futures receiver")
_k("s12_into_single_mpmc_n2", MQ_S, "S", ["C09", "C12", "C14", "C15"], "quick", "N=2, 1 stream")
_k("s12_uni_into_multi_bcast_n2", MQ_S, "S", ["C01", "C02", "C09", "C10", "C14", "C15"], "quick", "N=2, 2 streams; FutInnerUniRecv::into_multi")
_k("s12_uni_add_stream_bcast_n2", MQ_S, "S", ["C09", "C10", "C14", "C15"], "thorough", "N=2, 2 streams; add_stream_with")

# S12w: FutWait alone (callee contracts of the futures harnesses)
for (nm, tier) in (("notify_0", "thorough"), ("notify_1", "quick"), ("notify_2", "quick"), ("notify_9", "thorough"),
                   ("notify_all_0", "thorough"), ("notify_all_2", "quick"), ("park_s00", "quick"), ("park_s11", "quick"),
                   ("park_s21", "thorough"), ("send_or_park_s00", "quick"), ("send_or_park_s11", "quick"), ("send_or_park_s21", "thorough")):
    _k("s12w_" + nm, MQ_S, "S", ["C14", "C15"] + (["C13"] if "send_or_park" in nm else []), tier,
       nm + "; FutWait alone; parked tasks / spin counts concrete, wake-up test inputs symbolic", unwind_props=["C15"])

# S13 memory manager epoch contract
MEM = "memory::verif_contracts::proofs"
for (nm, tier) in (("free_t0_b1_w0", "quick"), ("free_t1_b1_w0", "quick"), ("free_t2_b2_w0", "quick"),
                   ("free_t2_b0_w20", "quick"), ("free_t1_b1_w20", "thorough")):
    _k("s13_" + nm, MEM, "S", ["C16", "C17"], tier, nm + " (t=tokens, b=batch objects, w=waiting objects); all epochs symbolic")
_k("s13_tokens_t0", MEM, "S", ["C16", "C17"], "thorough", "0 other tokens")
_k("s13_tokens_t2", MEM, "S", ["C16", "C17"], "quick", "2 other tokens, symbolic epochs")
_k("s13_drop_b1_w0", MEM, "S", ["C17"], "quick", "teardown with 1 batch object")
_k("s13_drop_b0_w2", MEM, "S", ["C17"], "quick", "teardown with 2 waiting objects")
_k("p11_signal_bits", "atomicsignal::verif_contracts::proofs", "Pk", ["C13", "C16"], "quick", "all 2^64 flag words")

# layer I: real ring operations under the protocol environment (budget b = env actions per call)
IB = "budget of %d environment actions per call; env = other senders claiming/publishing, consumers of every stream, sibling pins, handle churn"
for (nm, tier, props, b) in (
        ("i1_send_multi_bcast_n2_b2", "thorough", ["C01", "C02", "C03", "C04", "C12"], 2),
        ("i1_send_multi_mpmc_n2_b2", "thorough", ["C01", "C02", "C03", "C12"], 2),
        ("i1_send_single_bcast_n2_b2", "quick", ["C01", "C03", "C04", "C12"], 2),
        ("i1_send_single_mpmc_n2_b2", "thorough", ["C01", "C03", "C12"], 2),
        ("i1_send_multi_bcast_n1_b2", "thorough", ["C01", "C02", "C03", "C04", "C12"], 2),
        ("i2_recv_shared_bcast_n2_b2", "thorough", ["C01", "C02", "C04", "C05", "C06", "C07", "C12"], 2),
        ("i2_recv_shared_mpmc_n2_b2", "thorough", ["C01", "C02", "C05", "C06", "C07", "C12"], 2),
        ("i2_recv_shared_mpmc_n2_b3", "thorough", ["C01", "C02", "C05", "C06", "C07", "C12"], 3),
        ("i2_recv_sole_bcast_n2_b2", "thorough", ["C01", "C02", "C04", "C07", "C12"], 2),
        ("i2_recv_sole_mpmc_n2_b2", "thorough", ["C01", "C02", "C07", "C12"], 2),
        ("i2_recv_shared_bcast_n1_b2", "thorough", ["C01", "C02", "C04", "C05", "C06", "C07"], 2),
        ("i7_view_bcast_n2_b2", "quick", ["C01", "C04", "C07"], 2),
        ("i7_view_mpmc_n2_b2", "quick", ["C01", "C04", "C05", "C07"], 2),
        ("i7_view_bcast_n1_b3", "thorough", ["C01", "C04", "C07"], 3)):
    _k(nm, MQ_S, "I", props, tier, IB % b, label="proved-for-stated-bounds (<= %d env actions, retries bounded by them)" % b)

_k("i2_recv_churn_bcast_n2_b2", MQ_S, "I", ["C01", "C06", "C12"], "thorough", "N=2, shared stream; env = sibling receives + sibling handles cloned/dropped; 2 env actions", label="proved-for-stated-bounds (<= 2 env actions)")
_k("i2_recv_churn_mpmc_n2_b2", MQ_S, "I", ["C01", "C12"], "thorough", "N=2, shared stream; env = sibling receives + sibling handles cloned/dropped; 2 env actions", label="proved-for-stated-bounds (<= 2 env actions)")
for (nm, props) in (("i1_send_multi_bcast_n2_b1", ["C01", "C02", "C03", "C04", "C12"]), ("i1_send_multi_mpmc_n2_b1", ["C01", "C02", "C03", "C12"]),
                    ("i2_recv_shared_bcast_n2_b1", ["C01", "C02", "C04", "C05", "C06", "C07", "C12"]), ("i2_recv_shared_mpmc_n2_b1", ["C01", "C02", "C05", "C06", "C07", "C12"]),
                    ("i2_recv_churn_bcast_n2_b1", ["C01", "C06", "C12"]), ("i5_recv_args_shared_mpmc_n2_b1", ["C08"])):
    _k(nm, MQ_S, "I", props, "quick", IB % 1, label="proved-for-stated-bounds (<= 1 env action, <= 1 retry)")
_k("i6_add_stream_sole_n1_b3", MQ_S, "I", ["C10"], "quick", "N=1, sole parent handle; env = producers publishing + other consumers; 3 env actions", label="proved-for-stated-bounds (<= 3 env actions)")
_k("i6_add_stream_sole_n2_b2", MQ_S, "I", ["C10"], "thorough", "N=2, sole parent handle; 2 env actions", label="proved-for-stated-bounds (<= 2 env actions)")
_k("i6_add_stream_shared_n1_b3", MQ_S, "I", ["C10"], "quick", "N=1, SHARED parent stream; env = producers publishing + siblings of the parent consuming; 3 env actions", label="proved-for-stated-bounds (<= 3 env actions)")
_k("i6_add_stream_list_race_n2", MQ_S, "I", ["C10", "C03", "C16", "C11"], "quick", "N=2; another consumer completes an add_stream between my list load and my compare-exchange", label="proved-for-stated-bounds (1 env action)")
for (nm, tier) in (("i3_send_single_addstream_n1_b2", "quick"), ("i3_send_single_addstream_n2_b2", "thorough")):
    _k(nm, MQ_S, "I", ["C03", "C01", "C06", "C10"], tier, "env = another consumer adds a stream (list replaced) + consumers advancing; 2 env actions", label="proved-for-stated-bounds (<= 2 env actions)")
_k("i4_recv_disconnect_mpmc_n2", MQ_S, "I", ["C07", "C01"], "thorough", "N=2, sole consumer; env = the last sender's final send and its drop, both possibly at ONE observation point", label="proved-for-stated-bounds (<= 2 env actions)")
_k("i13_drop_send_race_bcast_n2", MQ_S, "I", ["C07", "C08", "C14"], "quick", "writer count 1..3; another sender dropped at any point in between", label="proved-for-stated-bounds (<= 1 env action)")
_k("i13_drop_send_race_mpmc_n2", MQ_S, "I", ["C07", "C08"], "thorough", "writer count 1..3; another sender dropped at any point in between", label="proved-for-stated-bounds (<= 1 env action)")
_k("i12_remove_consumer_n2", MQ_S, "I", ["C11", "C12"], "quick", "consumer count 1..3; a sibling handle dropped at any point in between", label="proved-for-stated-bounds (<= 1 env action)")
_k("i12_dup_consumer_n2", MQ_S, "I", ["C12"], "quick", "consumer count 1..2; a sibling handle dropped at any point in between", label="proved-for-stated-bounds (<= 1 env action)")

# I5: wait arguments under interference
for (nm, tier) in (("i5_recv_args_shared_mpmc_n2_b2", "thorough"), ("i5_recv_view_args_bcast_n2_b2", "quick")):
    _k(nm, MQ_S, "I", ["C08"], tier, IB % 2, label="proved-for-stated-bounds (<= 2 env actions)")

# T: try operations run alone from frozen-others states
for (nm, tier) in (("t1_try_send_bcast_n2", "quick"), ("t1_try_send_mpmc_n2", "quick"), ("t3_try_recv_bcast_n2", "quick"),
                   ("t3_try_recv_mpmc_n2", "quick"), ("t4_try_view_bcast_n2", "quick"), ("t4_try_view_mpmc_n2", "thorough")):
    _k(nm, MQ_S, "T", ["C18"], tier, "N=2; arbitrary pins, unpublished claims, stale cache; silent environment; <= 40 own shared accesses",
       unwind_props=["C18"])

# W: wait strategies (wait.rs)
WT = "wait::verif_contracts::proofs"
_k("p10_check_spec", WT, "Pk", ["C08", "C15", "C14"], "quick", "all (seq < 2^63, tag, writer count)")
_k("w1_busy_wait", WT, "S", ["C08"], "quick", "condition becomes true after 1..2 looks; by publication or by the last sender leaving", unwind_props=["C08"])
_k("w2_yielding_wait", WT, "S", ["C08"], "quick", "spin counts (0..1, 0..2); condition true after 1..2 pauses", unwind_props=["C08"])
_k("w3_blocking_wait", WT, "S", ["C08"], "quick", "spin counts (0..1, 0..1); condition true after 1..2 pauses", unwind_props=["C08"])
_k("w3_blocking_wait_flip_at_lock", WT, "S", ["C08"], "quick", "spin counts (0..1, 0..1); the value (or the end) arrives exactly when the waiter takes its lock", unwind_props=["C08"])
_k("w3_blocking_notify", WT, "S", ["C08"], "quick", "monitor discipline of notify")

# B: bounded stand-ins, run NATIVELY (real crate, hooks on): concrete public-API histories, both ledgers.
# Never counted as proved.  name -> dict(props, tier, bounds)
NATIVE = {}
for (cap, tier) in ((0, "quick"), (1, "quick"), (2, "quick"), (3, "quick"), (5, "quick"), (9, "quick")):
    NATIVE["e2e_broadcast_cap%d" % cap] = {"props": ["C09", "C03", "C05", "C07", "C10", "C11", "C17"], "tier": tier,
                                           "bounds": "one concrete history for requested capacity %d, payload bases {0, 7, 999}" % cap}
for (cap, tier) in ((0, "quick"), (2, "quick"), (4, "quick"), (7, "quick")):
    NATIVE["e2e_mpmc_cap%d" % cap] = {"props": ["C09", "C03", "C05", "C07", "C11", "C12", "C17"], "tier": tier,
                                      "bounds": "one concrete history for requested capacity %d, payload bases {0, 7, 999}" % cap}
for cap in (2, 4):
    NATIVE["e2e_mpmc_teardown_cap%d" % cap] = {"props": ["C05", "C13", "C17"], "tier": "quick",
                                               "bounds": "teardown with queued values, receivers first, capacity %d" % cap}

# ------------------------------------------------------------------------------------------------
# compile probes (layer X) are generated by tools/probes.py; all serve C19
PROBE_PROPS = ["C19"]

ALL_PROPS = ["C%02d" % i for i in range(1, 20)]

# properties whose quick tier would otherwise be too slow: cap on harnesses is applied in check
TITLES = {}


# real functions each harness family puts under contract (reported in evidence)
FUNCTIONS = [
    ("p1_", "countedindex::past"), ("p2_", "countedindex::{is_tagged, rm_tag}"), ("p4_", "countedindex::get_valid_wrap"),
    ("p5_", "CountedIndex::{new, from_usize, wrap_at, load, load_raw, load_count}"), ("p6_", "Transaction::{get, matches_previous}, CountedIndex::get_previous"),
    ("p9_", "Transaction::{commit, commit_direct, reload}"), ("p10_", "wait::{check, load_tagless}"), ("p12_", "std u64::{next_power_of_two, is_power_of_two} (contracts assumed by Verus)"), ("p11_", "AtomicSignal::*, LoadedSignal::*"),
    ("s1p_", "MultiQueue::try_send_single (pinned slot)"), ("s2p_", "MultiQueue::try_send_multi (pinned slot)"),
    ("s1_", "MultiQueue::try_send_single, reload_tail_single, ReadCursor::get_max_diff"), ("s2_", "MultiQueue::try_send_multi, reload_tail_multi, ReadCursor::get_max_diff"),
    ("s3_", "MultiQueue::try_recv, Reader::load_attempt, ReadAttempt::commit_attempt"), ("s4_", "MultiQueue::try_recv_view"),
    ("s7_", "InnerSend::{try_send, handle_signals}"), ("s8_", "InnerRecv::{try_recv, recv, try_recv_view, recv_view, examine_signals}"),
    ("s9_", "InnerRecv::add_stream, ReadCursor::add_stream, ReaderGroup::add_stream"), ("s10_clone_send", "Clone for InnerSend"), ("s10_drop_send", "Drop for InnerSend"),
    ("s10_clone_recv", "Clone for InnerRecv, Reader::dup_consumer"), ("s10_", "Drop for InnerRecv, InnerRecv::{unsubscribe, do_unsubscribe_with}, ReadCursor::remove_reader, ReaderGroup::remove_reader"),
    ("s11_", "Drop for MultiQueue, Drop for ReadCursor"), ("s12_start_send", "Sink::start_send for &FutInnerSend, FutWait::send_or_park"),
    ("s12_poll", "Stream::poll for &FutInnerRecv / FutInnerUniRecv, FutWait::{fut_wait, spin, park}"), ("s12_direct", "FutInnerRecv::{try_recv, recv}, FutInnerUniRecv::{try_recv, recv}"),
    ("s12_recv_blocks", "FutInnerRecv::recv, FutInnerUniRecv::recv, Wait::wait for FutWait"), ("s12_drop_recv", "Drop for FutInnerRecv"), ("s12_drop_unirecv", "Drop for FutInnerUniRecv"),
    ("s12_drop_send", "Drop for FutInnerSend (InnerSend)"), ("s12_into_single", "FutInnerRecv::into_single"), ("s12_uni_", "FutInnerUniRecv::{into_multi, add_stream_with}"),
    ("s12w_notify", "FutWait::{notify, notify_all}"), ("s12w_park", "FutWait::{fut_wait, spin, park}"), ("s12w_send_or_park", "FutWait::send_or_park"),
    ("s13_free", "MemoryManager::{free, start_free}, MemoryManagerInner::{try_freeing, add_freeable}"), ("s13_tokens", "MemoryManager::{get_token, update_token, remove_token}"),
    ("s13_drop", "Drop for MemoryManager, Drop for MemoryManagerInner"),
    ("i1_", "MultiQueue::try_send_{single,multi} under the protocol environment"), ("i2_", "MultiQueue::try_recv under the protocol environment"),
    ("i5_", "InnerRecv::{recv, recv_view} (arguments of Wait::wait) under the protocol environment"), ("i6_", "InnerRecv::add_stream / ReadCursor::add_stream under the protocol environment"),
    ("i7_", "MultiQueue::try_recv_view under the protocol environment"), ("i12_", "Reader::{remove_consumer, dup_consumer} with a sibling leaving in between"),
    ("i13_", "Drop for InnerSend with another sender leaving in between"), ("t1_", "InnerSend::try_send (termination, no blocking primitive)"),
    ("t3_", "InnerRecv::try_recv (termination, no blocking primitive)"), ("t4_", "InnerRecv::try_recv_view (termination, no blocking primitive)"),
    ("w1_", "Wait::wait for BusyWait"), ("w2_", "Wait::wait for YieldingWait"), ("w3_blocking_wait", "Wait::wait for BlockingWait"), ("w3_blocking_notify", "Wait::notify for BlockingWait"),
]


def functions_of(harness):
    for pre, f in FUNCTIONS:
        if harness.startswith(pre):
            return f
    return "?"


def verus_for(prop):
    return sorted(f for f, ps in VERUS.items() if prop in ps)


def native_for(prop, tier):
    return sorted(n for n, h in NATIVE.items() if prop in h["props"] and (tier == "thorough" or h["tier"] == "quick"))


import json as _json
import os as _os
import re as _re

try:
    TIMINGS = _json.load(open(_os.path.join(_os.path.dirname(_os.path.abspath(__file__)), "timings.json")))
except Exception:  # pragma: no cover
    TIMINGS = {}

# every-change tier: only harnesses that take <= QUICK_MAX_S on the reference sweep (8 jobs, contended), chosen
# family by family (cheapest representative of every family first) until the summed time reaches QUICK_SUM_S.
# The check run with every change must stay well under 15 minutes on a machine slower than the reference.
QUICK_MAX_S = 60
QUICK_SUM_S = 420
DEFAULT_TIME_S = 45  # harnesses without a measurement yet


def _family(name):
    m = _re.match(r"([a-z]+[0-9]*[a-z]?_[a-z_]*?)(?:_(?:bcast|mpmc|n[0-9]|k[0-9]|t[0-9]|b[0-9]|s[0-9]|cap|[0-9])|$)", name)
    return m.group(1) if m else name


def kani_for(prop, tier):
    cands = [n for n, h in KANI.items() if prop in h["props"] and (tier == "thorough" or h["tier"] == "quick")]
    if tier == "thorough":
        return sorted(cands)
    cands = [n for n in cands if TIMINGS.get(n, DEFAULT_TIME_S) <= QUICK_MAX_S]
    fams = {}
    for n in sorted(cands, key=lambda x: (TIMINGS.get(x, DEFAULT_TIME_S), x)):
        fams.setdefault(_family(n), []).append(n)
    out, total, rank = [], 0, 0
    while True:
        layer = [(TIMINGS.get(v[rank], DEFAULT_TIME_S), v[rank]) for v in fams.values() if len(v) > rank]
        if not layer:
            break
        for tm, n in sorted(layer):
            if total + tm > QUICK_SUM_S and out:
                continue
            out.append(n)
            total += tm
        rank += 1
    return sorted(out)
