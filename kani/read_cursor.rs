// contracts and harnesses for src/read_cursor.rs (included as multiqueue2::read_cursor::verif_contracts)
//
// This child module sees the private fields of ReadCursor / ReaderGroup / Reader.  It provides
//  * `vf_*` builders and ghost accessors used by the queue-level state generator, and
//  * the obligations on the stream list itself (S6, S9a, S10 parts, P12 twins).

use super::*;
// explicit imports: the contracts must not depend on which names the parent module happens to import
use std::cell::Cell;
use std::ptr;
use crate::verif_hooks::*;


/// Ghost view of the published stream list.
pub struct ListView {
    pub k: usize,
    pub pos_ptr: [*const u8; MAXS],
    pub pos: [usize; MAXS],
}

impl ReadCursor {
    /// Build a cursor whose published list has `k` streams at the given positions with the given
    /// consumer counts, plus one handle (`Reader`) per stream in the given mode.
    pub(crate) unsafe fn vf_build(
        k: usize,
        pos: &[usize; MAXS],
        ncons: &[usize; MAXS],
        single: &[bool; MAXS],
        wrap: Index,
    ) -> (ReadCursor, [Option<Reader>; MAXS]) {
        let group: *mut ReaderGroup = alloc::allocate(1);
        // capacity fixed up front: no symbolic reallocation
        let mut list: Vec<*const ReaderPos> = Vec::with_capacity(MAXS);
        let mut handles: [Option<Reader>; MAXS] = [None, None, None];
        let mut i = 0;
        while i < k {
            {
                let p: *mut ReaderPos = alloc::allocate(1);
                ptr::write(p, ReaderPos { pos_data: CountedIndex::from_usize(pos[i], wrap) });
                let m: *mut ReaderMeta = alloc::allocate(1);
                ptr::write(m, ReaderMeta { num_consumers: AtomicUsize::new(ncons[i]) });
                list.push(p as *const ReaderPos);
                handles[i] = Some(Reader {
                    state: Cell::new(if single[i] { ReaderState::Single } else { ReaderState::Multi }),
                    pos: p,
                    meta: m as *const ReaderMeta,
                });
            }
            i += 1;
        }
        ptr::write(group, ReaderGroup { readers: list });
        (ReadCursor { readers: AtomicPtr::new(group), last_pos: Cell::new(0) }, handles)
    }

    /// ghost: the published list
    pub(crate) unsafe fn vf_view(&self) -> ListView {
        let g = &*self.readers.peek();
        let mut v = ListView { k: g.readers.len(), pos_ptr: [ptr::null(); MAXS], pos: [0; MAXS] };
        let mut i = 0;
        while i < g.readers.len() && i < MAXS {
            v.pos_ptr[i] = g.readers[i] as *const u8;
            v.pos[i] = (*g.readers[i]).pos_data.vf_peek();
            i += 1;
        }
        v
    }

    /// type dispatch for the `ToFree::delete` stand-in (memory.rs contracts): the two element types
    /// this module retires through the memory manager
    pub(crate) unsafe fn vf_delete_dispatch(freer: usize, mem: *mut u8, num: usize) -> bool {
        if freer == MemoryManager::vf_freer_of::<ReaderGroup>() {
            MemoryManager::vf_free_as::<ReaderGroup>(mem, num);
            true
        } else if freer == MemoryManager::vf_freer_of::<ReaderPos>() {
            MemoryManager::vf_free_as::<ReaderPos>(mem, num);
            true
        } else {
            false
        }
    }

    /// ghost accessors by raw position-object pointer / by handle address (environment, layer I)
    pub(crate) unsafe fn vf_pos_cell_of(p: *const u8) -> usize {
        (*(p as *const ReaderPos)).pos_data.vf_cell_addr()
    }
    pub(crate) unsafe fn vf_set_pos_of(p: *const u8, v: usize) {
        (*(p as *const ReaderPos)).pos_data.vf_poke(v)
    }
    pub(crate) unsafe fn vf_consumers_of_handle(h: usize) -> usize {
        (*(h as *const Reader)).vf_consumers()
    }
    pub(crate) unsafe fn vf_set_consumers_of_handle(h: usize, v: usize) {
        (*(h as *const Reader)).vf_set_consumers(v)
    }

    /// Environment move (layer I): ANOTHER consumer handle completes an add_stream right now: a new list
    /// (current list + a new position object at `pos`) replaces the published one; the old list is retired
    /// (kept alive: the harness never reclaims).  Returns the address of the new stream's position counter.
    pub(crate) unsafe fn vf_env_add_stream(&self, pos: usize, wrap: Index) -> usize {
        let cur = &*self.readers.peek();
        let p: *mut ReaderPos = alloc::allocate(1);
        ptr::write(p, ReaderPos { pos_data: CountedIndex::from_usize(pos, wrap) });
        let mut list: Vec<*const ReaderPos> = Vec::with_capacity(MAXS + 2);
        let mut i = 0;
        while i < cur.readers.len() {
            list.push(cur.readers[i]);
            i += 1;
        }
        list.push(p as *const ReaderPos);
        let ng: *mut ReaderGroup = alloc::allocate(1);
        ptr::write(ng, ReaderGroup { readers: list });
        self.readers.poke(ng);
        (*p).pos_data.vf_cell_addr()
    }
    /// ghost: number of streams in the published list / is a position counter cell part of it
    pub(crate) unsafe fn vf_list_len(&self) -> usize {
        (*self.readers.peek()).readers.len()
    }
    pub(crate) unsafe fn vf_list_has_cell(&self, cell: usize) -> bool {
        let g = &*self.readers.peek();
        let mut i = 0;
        let mut r = false;
        while i < g.readers.len() {
            if (*g.readers[i]).pos_data.vf_cell_addr() == cell {
                r = true;
            }
            i += 1;
        }
        r
    }

    pub(crate) fn vf_readers_addr(&self) -> usize {
        &self.readers as *const AtomicPtr<ReaderGroup> as usize
    }
    /// position of the LAST stream of the list that `group` points to (the one add_stream appended)
    pub(crate) unsafe fn vf_last_pos_of_group(group: usize) -> usize {
        let g = &*(group as *const ReaderGroup);
        let k = g.readers.len();
        (*g.readers[k - 1]).pos_data.vf_peek()
    }

    pub(crate) fn vf_group_ptr(&self) -> usize {
        self.readers.peek() as usize
    }
}

impl Reader {
    pub(crate) fn vf_pos(&self) -> usize {
        unsafe { (*self.pos).pos_data.vf_peek() }
    }
    pub(crate) fn vf_set_pos(&self, v: usize) {
        unsafe { (*self.pos).pos_data.vf_poke(v) }
    }
    pub(crate) fn vf_pos_ptr(&self) -> *const u8 {
        self.pos as *const u8
    }
    pub(crate) fn vf_pos_cell_addr(&self) -> usize {
        unsafe { (*self.pos).pos_data.vf_cell_addr() }
    }
    pub(crate) fn vf_consumers(&self) -> usize {
        unsafe { (*self.meta).num_consumers.peek() }
    }
    pub(crate) fn vf_set_consumers(&self, v: usize) {
        unsafe { (*self.meta).num_consumers.poke(v) }
    }
    pub(crate) fn vf_consumers_addr(&self) -> usize {
        unsafe { &(*self.meta).num_consumers as *const AtomicUsize as usize }
    }
    pub(crate) fn vf_is_single_state(&self) -> bool {
        self.state.get() == ReaderState::Single
    }
    pub(crate) fn vf_mask(&self) -> usize {
        unsafe { (*self.pos).pos_data.vf_mask() }
    }
}
