// contracts and harnesses for src/countedindex.rs (included as multiqueue2::countedindex::verif_contracts)
//
// P-layer twins: loop-free harnesses over the full 64-bit domain (complete proofs, and the source
// of counterexamples for the Verus contracts of the same functions), plus the parts the Verus
// contracts cannot see because vstd gives atomics no postcondition: the value a commit stores.

use super::*;
use crate::verif_hooks::*;

impl CountedIndex {
    /// ghost accessors (not reported to the runtime)
    pub(crate) fn vf_peek(&self) -> usize {
        self.val.peek()
    }
    pub(crate) fn vf_poke(&self, v: usize) {
        self.val.poke(v)
    }
    pub(crate) fn vf_mask(&self) -> usize {
        self.mask
    }
    pub(crate) fn vf_cell_addr(&self) -> usize {
        &self.val as *const AtomicUsize as usize
    }
}

pub(crate) const TWO63: usize = 1usize << 63;
pub(crate) const TAGMASK: usize = TWO63 - 1;

#[cfg(kani)]
mod proofs {
    use super::*;

    fn pow2(x: u64) -> bool {
        x > 0 && (x & (x - 1)) == 0
    }

    /// P1 `past`: (64-bit wrapping difference, difference > 2^62-1)
    #[kani::proof]
    fn p1_past() {
        let (a, b): (usize, usize) = (kani::any(), kani::any());
        let (d, far) = past(a, b);
        assert!(d == a.wrapping_sub(b));
        assert!(far == (d > 0x3fff_ffff_ffff_ffff));
    }

    /// P2/P3 `is_tagged`, `rm_tag`
    #[kani::proof]
    fn p2_p3_tag_bits() {
        let v: usize = kani::any();
        assert!(is_tagged(v) == (v >= TWO63));
        assert!(rm_tag(v) == if v >= TWO63 { v - TWO63 } else { v });
        assert!(is_tagged(INITIAL_QUEUE_FLAG));
    }

    /// P4 `get_valid_wrap`: C03's normalisation (next power of two, minimum 1) below the cap
    #[kani::proof]
    fn p4_get_valid_wrap() {
        let v: u64 = kani::any();
        let r = get_valid_wrap(v);
        if v < (1u64 << 61) {
            assert!(pow2(r));
            assert!(r >= v);
            assert!(v == 0 || r < 2 * v);
            assert!(v != 0 || r == 1);
        }
        if v <= 9 {
            let expect = if v <= 1 { 1 } else if v == 2 { 2 } else if v <= 4 { 4 } else if v <= 8 { 8 } else { 16 };
            assert!(r == expect);
        }
    }

    /// P12 the two contracts the Verus layer ASSUMES on std (`assume_specification` in
    /// verus/contracts/core.vspec), discharged here against the real std functions for all 2^64
    /// inputs (loop-free, complete): `u64::next_power_of_two` and `u64::is_power_of_two`.
    #[kani::proof]
    fn p12_std_pow2_specs() {
        let x: u64 = kani::any();
        // assume_specification[<u64>::is_power_of_two]: ensures r == pow2(x)
        assert!(x.is_power_of_two() == pow2(x));
        // assume_specification[<u64>::next_power_of_two]:
        //   requires 0 < x <= 2^62, ensures pow2(r), r >= x, r < 2 * x
        if 0 < x && x <= 0x4000_0000_0000_0000u64 {
            let r = x.next_power_of_two();
            assert!(pow2(r));
            assert!(r >= x);
            assert!((r as u128) < 2 * (x as u128));
            kani::cover!(r == 0x4000_0000_0000_0000u64);
            kani::cover!(r == 1);
        }
    }

    /// P5 constructors: mask = wrap - 1, start value as given; no panic for valid wraps
    #[kani::proof]
    fn p5_constructors() {
        let w: u64 = kani::any();
        kani::assume(pow2(w) && w <= (1u64 << 61));
        let v: usize = kani::any();
        let c = CountedIndex::from_usize(v, w);
        assert!(c.mask == (w - 1) as usize);
        assert!(c.val.peek() == v);
        assert!(c.wrap_at() == w);
        let c0 = CountedIndex::new(w);
        assert!(c0.val.peek() == 0 && c0.mask == (w - 1) as usize);
        assert!(c.load_raw(Ordering::Relaxed) == v);
        assert!(c.load_count(Ordering::Relaxed) == v);
        assert!(c.load(Ordering::Relaxed) == (v as u64) & (w - 1));
    }

    /// P6/P7/P8 `Transaction::get`, `matches_previous`, `get_previous`
    #[kani::proof]
    fn p6_p7_p8_transaction_reads() {
        let w: u64 = kani::any();
        kani::assume(pow2(w) && w <= (1u64 << 61));
        let v: usize = kani::any();
        let c = CountedIndex::from_usize(v, w);
        let t = c.load_transaction(Ordering::Relaxed);
        let (idx, tag) = t.get();
        assert!(idx as usize == v & ((w - 1) as usize));
        assert!((idx as u64) < w);
        assert!(tag == v);
        let x: usize = kani::any();
        assert!(t.matches_previous(x) == ((v.wrapping_sub(w as usize) & TAGMASK) == x));
        // on the 63-bit ring: fires exactly at distance N
        if v < TWO63 && x < TWO63 {
            let dist = if v >= x { v - x } else { v + TWO63 - x };
            assert!(t.matches_previous(x) == (dist == w as usize));
        }
        let by: u64 = kani::any();
        assert!(CountedIndex::get_previous(v, by) == v.wrapping_sub(by as usize));
    }

    /// P9 commit family: stored value is rm_tag(loaded + by); CAS expects exactly the loaded
    /// value; `None` iff it succeeded; a failed commit writes nothing and reports what is there.
    #[kani::proof]
    fn p9_commit() {
        let w: u64 = kani::any();
        kani::assume(pow2(w) && w <= (1u64 << 61));
        let v: usize = kani::any();
        let by: u64 = kani::any();
        let c = CountedIndex::from_usize(v, w);
        let t = c.load_transaction(Ordering::Relaxed);
        // somebody else moves the counter (or not) between load and commit
        let interfered: usize = kani::any();
        c.val.poke(interfered);
        match t.commit(by, Ordering::Relaxed) {
            None => {
                assert!(interfered == v);
                assert!(c.val.peek() == (v.wrapping_add(by as usize) & TAGMASK));
            }
            Some(t2) => {
                assert!(interfered != v);
                assert!(c.val.peek() == interfered);
                assert!(t2.loaded_vals == interfered && t2.mask == (w - 1) as usize);
                assert!(t2.ptr as *const AtomicUsize == &c.val as *const AtomicUsize);
            }
        }
    }

    #[kani::proof]
    fn p9_commit_direct_reload() {
        let w: u64 = kani::any();
        kani::assume(pow2(w) && w <= (1u64 << 61));
        let v: usize = kani::any();
        let by: u64 = kani::any();
        let c = CountedIndex::from_usize(v, w);
        let t = c.load_transaction(Ordering::Relaxed);
        let other: usize = kani::any();
        c.val.poke(other);
        let t2 = t.reload();
        assert!(t2.loaded_vals == other && t2.mask == (w - 1) as usize);
        t2.commit_direct(by, Ordering::Relaxed);
        assert!(c.val.peek() == (other.wrapping_add(by as usize) & TAGMASK));
    }

    /// vacuity guard: the assumptions of the harnesses above are satisfiable for every size class
    #[kani::proof]
    fn p_cover_wraps() {
        let w: u64 = kani::any();
        kani::assume(pow2(w) && w <= (1u64 << 61));
        kani::cover!(w == 1);
        kani::cover!(w == 2);
        kani::cover!(w == 1u64 << 61);
    }
}
