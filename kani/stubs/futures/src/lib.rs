//! Stub of futures 0.1: only what multiqueue2 names. `task::current()` hands out a task whose
//! `notify` is recorded in a global ledger that proof harnesses read (ghost state).
#![allow(dead_code)]

#[derive(Copy, Clone, Debug, PartialEq)]
pub enum Async<T> {
    Ready(T),
    NotReady,
}

impl<T> Async<T> {
    pub fn is_ready(&self) -> bool {
        match *self {
            Async::Ready(_) => true,
            Async::NotReady => false,
        }
    }
    pub fn is_not_ready(&self) -> bool {
        !self.is_ready()
    }
}

#[derive(Copy, Clone, Debug, PartialEq)]
pub enum AsyncSink<T> {
    Ready,
    NotReady(T),
}

impl<T> AsyncSink<T> {
    pub fn is_ready(&self) -> bool {
        match *self {
            AsyncSink::Ready => true,
            AsyncSink::NotReady(_) => false,
        }
    }
}

pub type Poll<T, E> = Result<Async<T>, E>;
pub type StartSend<T, E> = Result<AsyncSink<T>, E>;

pub trait Stream {
    type Item;
    type Error;
    fn poll(&mut self) -> Poll<Option<Self::Item>, Self::Error>;
}

pub trait Sink {
    type SinkItem;
    type SinkError;
    fn start_send(&mut self, item: Self::SinkItem) -> StartSend<Self::SinkItem, Self::SinkError>;
    fn poll_complete(&mut self) -> Poll<(), Self::SinkError>;
    fn close(&mut self) -> Poll<(), Self::SinkError> {
        self.poll_complete()
    }
}

pub mod task {
    /// Ghost ledger: which task ids were handed out by `current()` and how often each was notified.
    pub static mut CURRENT_ID: usize = 1;
    pub static mut CURRENT_CALLS: usize = 0;
    pub static mut NOTIFIED: [u8; 8] = [0; 8];
    pub static mut NOTIFY_CALLS: usize = 0;
    /// value of a harness-maintained event clock at the last notification of each task
    pub static mut NOTIFY_STAMP: [usize; 8] = [0; 8];
    pub static mut CLOCK: usize = 0;

    #[derive(Clone)]
    pub struct Task {
        pub id: usize,
    }

    pub fn current() -> Task {
        unsafe {
            CURRENT_CALLS += 1;
            Task { id: CURRENT_ID }
        }
    }

    impl Task {
        pub fn notify(&self) {
            unsafe {
                NOTIFY_CALLS += 1;
                if self.id < 8 {
                    if NOTIFIED[self.id] < 255 {
                        NOTIFIED[self.id] += 1;
                    }
                    NOTIFY_STAMP[self.id] = CLOCK;
                }
            }
        }
    }
}
