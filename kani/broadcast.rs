// contracts and harnesses for src/broadcast.rs (included as multiqueue2::broadcast::verif_contracts)
//
// S14/S15 (bounded stand-in, labelled so; run NATIVELY on the real crate with hooks on -- under Kani the
// real Arc/VecDeque heap objects of the public constructors exhaust CBMC): the public broadcast API driven through one concrete
// history per requested capacity -- constructor, N accepted sends, the (N+1)-th refused, a second
// stream, drains through every receive entry point and iterator, handle conversions, disconnect,
// full teardown -- with SYMBOLIC payload values, against the reference model's answers, with the
// payload ledger (every payload dropped exactly once) and the allocation ledger (everything the
// queue allocated is released).  Histories are concrete: this is a bounded check, not a proof.

use super::*;
// explicit imports: the contracts must not depend on which names the parent module happens to import
use std::sync::mpsc::{RecvError, SendError, TryRecvError, TrySendError};
use crate::verif_hooks::pay::{self, Pay};
use crate::verif_hooks::*;

/// the property's normalisation of requested capacities 0..9
pub(crate) fn expected_n(cap: u64) -> usize {
    match cap {
        0 | 1 => 1,
        2 => 2,
        3 | 4 => 4,
        5..=8 => 8,
        _ => 16,
    }
}

impl<T: Clone> BroadcastSender<T> {
    pub(crate) fn vf_expected_n(cap: u64) -> usize {
        expected_n(cap)
    }
    /// entry point for the native bounded runs (tools/gen_dispatch.py)
    pub(crate) unsafe fn vf_e2e(cap: u64) {
        e2e_broadcast(cap)
    }
}

pub(crate) unsafe fn e2e_broadcast(cap: u64) {
    ledger::ON = true;
    ledger::CAP_USED = ledger::CAP;
    let n = expected_n(cap);
    let base: usize = rt::oracle_usize();
    rt::assume(base < 1000);
    {
        let (tx, rx) = broadcast_queue_with::<Pay, EWait>(cap, EWait { notify: false });
        // C03/C09: exactly N consecutive sends are accepted on a drained queue
        let mut j = 0;
        while j < n {
            assert!(tx.try_send(Pay::new(base + j)).is_ok(), "C03/C09: fewer than N sends accepted on a fresh queue");
            j += 1;
        }
        match tx.try_send(Pay::new(base + 99)) {
            Err(TrySendError::Full(p)) => assert!(p.val == base + 99, "C01/C09: refused value handed back"),
            _ => assert!(false, "C03/C09: the (N+1)-th send must be refused"),
        }
        // C10: a stream added now starts at the parent's position (0): it sees everything
        let rx2 = rx.add_stream();
        let mut j = 0;
        while j < n {
            match rx.try_recv() {
                Ok(p) => assert!(p.val == base + j, "C02/C09: values arrive in send order"),
                Err(_) => assert!(false, "C01/C09: an accepted value is missing"),
            }
            j += 1;
        }
        assert!(rx.try_recv() == Err(TryRecvError::Empty), "C09: drained stream reports Empty");
        // C03: the second stream still holds everything: the queue is still full
        match tx.try_send(Pay::new(base + 98)) {
            Err(TrySendError::Full(_)) => {}
            _ => assert!(false, "C03/C10: the slowest stream must keep back-pressure"),
        }
        // view receiver on the second stream
        let u = match rx2.into_single() {
            Ok(u) => u,
            Err(_) => {
                assert!(false, "C09: into_single on a sole handle succeeds");
                return;
            }
        };
        match u.try_recv_view(|p: &Pay| p.val) {
            Ok(v) => assert!(v == base, "C02/C09: second stream starts at the first value"),
            Err(_) => assert!(false, "C01/C10: the added stream misses a value"),
        }
        // one slot is free now
        assert!(tx.try_send(Pay::new(base + n)).is_ok(), "C03/C11: a freed slot is accepted");
        // drain the second stream through the iterator forms
        let mut cnt = 1;
        for v in u.try_iter_with(|p: &Pay| p.val) {
            assert!(v == base + cnt, "C02/C09: iterator yields values in order");
            cnt += 1;
        }
        assert!(cnt == n + 1, "C01/C09: the second stream received every value exactly once");
        let rx2 = u.into_multi();
        let rx2b = rx2.clone();
        assert!(!rx2b.unsubscribe(), "C11: unsubscribe on a non-last handle reports false");
        // first stream: one value left
        let mut it = rx.try_iter();
        match it.next() {
            Some(p) => assert!(p.val == base + n),
            None => assert!(false, "C01/C09: value missing on the first stream"),
        }
        assert!(it.next().is_none());
        // C07: sender disconnect
        let tx2 = tx.clone();
        drop(tx);
        assert!(rx.try_recv() == Err(TryRecvError::Empty), "C07: a clone of the sender is still alive");
        tx2.unsubscribe();
        assert!(rx.try_recv() == Err(TryRecvError::Disconnected), "C07: drained and every sender gone");
        assert!(rx.try_recv() == Err(TryRecvError::Disconnected), "C07: the end is reported on every later call");
        assert!(rx2.recv().is_err(), "C07: blocking receive reports the end");
        assert!(rx2.unsubscribe(), "C11: unsubscribe on the last handle reports true");
        drop(rx);
    }
    assert!(pay::DOUBLE_DROP == 0 && pay::DROP_OF_UNCREATED == 0, "C05: double drop");
    assert!(pay::live_count() == 0, "C05: a payload or clone was never dropped");
    assert!(ledger::BAD_FREE == 0, "C16: double free");
    assert!(ledger::LIVE_N == 0, "C17: memory still allocated after the last handle was dropped");
}

impl PartialEq for Pay {
    fn eq(&self, o: &Pay) -> bool {
        self.val == o.val
    }
}
impl std::fmt::Debug for Pay {
    fn fmt(&self, _f: &mut std::fmt::Formatter) -> std::fmt::Result {
        Ok(())
    }
}

