// contracts and harnesses for src/broadcast.rs (included as multiqueue2::broadcast::verif_contracts)
