// contracts and harnesses for src/mpmc.rs (included as multiqueue2::mpmc::verif_contracts)
