// contracts and harnesses for src/mpmc.rs (included as multiqueue2::mpmc::verif_contracts)
//
// S14/S15 (bounded stand-in): the public mpmc API through one concrete history per requested
// capacity with symbolic payload values; see broadcast.rs contracts for the rationale.

use super::*;
// explicit imports: the contracts must not depend on which names the parent module happens to import
use std::sync::mpsc::{RecvError, SendError, TryRecvError, TrySendError};
use crate::verif_hooks::pay::{self, Pay};
use crate::verif_hooks::*;

pub(crate) unsafe fn e2e_mpmc(cap: u64) {
    ledger::ON = true;
    ledger::CAP_USED = ledger::CAP;
    let n = crate::broadcast::BroadcastSender::<Pay>::vf_expected_n(cap);
    let base: usize = rt::oracle_usize();
    rt::assume(base < 1000);
    {
        let (tx, rx) = mpmc_queue_with::<Pay, EWait>(cap, EWait { notify: false });
        let mut j = 0;
        while j < n {
            assert!(tx.try_send(Pay::new(base + j)).is_ok(), "C03/C09: fewer than N sends accepted on a fresh queue");
            j += 1;
        }
        match tx.try_send(Pay::new(base + 99)) {
            Err(TrySendError::Full(p)) => assert!(p.val == base + 99, "C01/C09: refused value handed back"),
            _ => assert!(false, "C03/C09: the (N+1)-th send must be refused"),
        }
        // two handles on the one stream: each value goes to exactly one of them
        let rxb = rx.clone();
        match rx.try_recv() {
            Ok(p) => assert!(p.val == base, "C02/C09: first value first"),
            Err(_) => assert!(false, "C01/C09: value missing"),
        }
        if n > 1 {
            match rxb.try_recv() {
                Ok(p) => assert!(p.val == base + 1, "C01/C02: the sibling continues where the stream is, never repeats a value"),
                Err(_) => assert!(false, "C01/C09: value missing"),
            }
        }
        assert!(!rxb.unsubscribe(), "C11: unsubscribe on a non-last handle reports false");
        assert!(tx.try_send(Pay::new(base + n)).is_ok(), "C03: a freed slot is accepted");
        // single-consumer conversion and view
        let u = match rx.into_single() {
            Ok(u) => u,
            Err(_) => {
                assert!(false, "C09/C12: into_single succeeds once the sibling is gone");
                return;
            }
        };
        let start = if n > 1 { 2 } else { 1 };
        let mut cnt = start;
        for v in u.try_iter_with(|p: &Pay| p.val) {
            assert!(v == base + cnt, "C02/C09: iterator yields values in order");
            cnt += 1;
        }
        assert!(cnt == n + 1, "C01/C09: every value delivered exactly once");
        let rx = u.into_multi();
        // leave one value in the queue at teardown
        assert!(tx.try_send(Pay::new(base + 77)).is_ok());
        drop(tx);
        match rx.recv() {
            Ok(p) => assert!(p.val == base + 77, "C07: values accepted before the disconnect are still delivered"),
            Err(_) => assert!(false, "C07: the end was reported before the last value"),
        }
        assert!(rx.try_recv() == Err(TryRecvError::Disconnected), "C07: drained and every sender gone");
        assert!(rx.unsubscribe(), "C11: unsubscribe on the last handle reports true");
    }
    assert!(pay::DOUBLE_DROP == 0 && pay::DROP_OF_UNCREATED == 0, "C05: double drop");
    assert!(pay::live_count() == 0, "C05: a payload was never dropped");
    assert!(ledger::BAD_FREE == 0, "C16: double free");
    assert!(ledger::LIVE_N == 0, "C17: memory still allocated after the last handle was dropped");
}

/// teardown with values still queued and receivers dropped first (C05, C13, C17)
pub(crate) unsafe fn e2e_mpmc_teardown_nonempty(cap: u64) {
    ledger::ON = true;
    ledger::CAP_USED = ledger::CAP;
    let n = crate::broadcast::BroadcastSender::<Pay>::vf_expected_n(cap);
    {
        let (tx, rx) = mpmc_queue_with::<Pay, EWait>(cap, EWait { notify: false });
        let mut j = 0;
        while j < n {
            assert!(tx.try_send(Pay::new(j)).is_ok());
            j += 1;
        }
        match rx.try_recv() {
            Ok(p) => assert!(p.val == 0),
            Err(_) => assert!(false),
        }
        drop(rx);
        match tx.try_send(Pay::new(5)) {
            Err(TrySendError::Disconnected(p)) => assert!(p.val == 5, "C13: value handed back"),
            _ => assert!(false, "C13: with no receiver left try_send reports Disconnected"),
        }
        drop(tx);
    }
    assert!(pay::DOUBLE_DROP == 0 && pay::DROP_OF_UNCREATED == 0, "C05: double drop at teardown");
    assert!(pay::live_count() == 0, "C05: a queued payload was never dropped at teardown");
    assert!(ledger::BAD_FREE == 0 && ledger::LIVE_N == 0, "C17: memory still allocated after the last handle was dropped");
}


impl<T> MPMCSender<T> {
    /// entry points for the native bounded runs (tools/gen_dispatch.py)
    pub(crate) unsafe fn vf_e2e(cap: u64) {
        e2e_mpmc(cap)
    }
    pub(crate) unsafe fn vf_e2e_teardown(cap: u64) {
        e2e_mpmc_teardown_nonempty(cap)
    }
}
