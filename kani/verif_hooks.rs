// Shim types + verification runtime, included into /repo/src/verif_hooks.rs under the cargo
// feature `multiqueue2_verif`.  The shim types have the API of the std / parking_lot types the
// crate uses; every shared-memory operation first reports to `rt::before`, which (when an
// environment is installed by a proof harness) lets *other* threads of the queue protocol make
// moves at exactly that point.  With no environment installed the shims are plain pass-throughs.
//
// Trusted: that these wrappers behave like the wrapped primitives (they delegate to them), and
// under `cfg(kani)` that the Cell-based mutex behaves like an uncontended lock.



pub use std::sync::atomic::Ordering;

/// bound on the number of streams in generated states
pub const MAXS: usize = 3;

/// kinds of shared-memory operation reported to the runtime
pub const K_LOAD: u8 = 0;
pub const K_STORE: u8 = 1;
pub const K_RMW: u8 = 2;
pub const K_CAS: u8 = 3;
pub const K_FENCE: u8 = 4;
pub const K_LOCK: u8 = 5;
pub const K_YIELD: u8 = 6;
pub const K_CONDWAIT: u8 = 7;
pub const K_USER: u8 = 8; // inside payload Clone / view closure

/// Static-dispatch bridge to the environment, implemented in `multiqueue::verif_contracts`
/// (which can see the queue's private fields).  No function pointers: CBMC resolves those against
/// every address-taken function of the same shape.
pub trait EnvDispatch {
    fn step(kind: u8, addr: usize);
    fn wrote(kind: u8, addr: usize, old: usize, new: usize);
}
pub struct TheEnv;

/// Native replay of a proof harness by name (implemented next to the harnesses, generated table).
pub trait ReplayDispatch {
    fn run(name: &str) -> bool;
}

/// Run harness `name` natively on the REAL code with every nondeterministic choice taken from `vals`
/// (the values Kani's concrete playback reported, in call order).  A violated obligation panics with
/// the same message the verifier reported.  Returns false if the harness is unknown.
#[cfg(not(kani))]
pub fn replay(name: &str, vals: Vec<u64>) -> bool {
    unsafe {
        rt::RECORDED = vals;
        rt::RECORDED_POS = 0;
    }
    <TheEnv as ReplayDispatch>::run(name)
}

pub mod rt {
    use super::*;

    /// 0 = no environment (sequential layer S); other values select an environment in
    /// `multiqueue::verif_contracts::env`.
    pub static mut ENV_MODE: u32 = 0;
    /// re-entrancy guard: the environment's own accesses are not interleaved further
    pub static mut IN_ENV: bool = false;
    /// ghost flags: blocking primitives reached (C15 / C18)
    pub static mut LOCKS_TAKEN: usize = 0;
    pub static mut CONDVAR_WAITS: usize = 0;
    pub static mut YIELDS: usize = 0;
    pub static mut SLEEPS: usize = 0;
    /// number of shared accesses performed by the code under proof (T layer step counter)
    pub static mut ACCESSES: usize = 0;
    /// watched addresses (atomics written / mutexes locked by the code under proof): the access count at
    /// the last write / lock, 0 = never.  Used to order "state change" before "notification" (C14).
    pub static mut WATCH_ADDR: [usize; 4] = [0; 4];
    pub static mut WATCH_STAMP: [usize; 4] = [0; 4];
    pub static mut WATCH_HITS: [usize; 4] = [0; 4];
    /// event clock: advanced at every watched write / lock and at every harness-level event (notify)
    pub static mut CLOCK: usize = 0;

    #[inline(always)]
    pub fn note(addr: usize) {
        unsafe {
            if IN_ENV {
                return;
            }
            if WATCH_ADDR[0] != 0 && WATCH_ADDR[0] == addr {
                CLOCK += 1;
                WATCH_STAMP[0] = CLOCK;
                WATCH_HITS[0] += 1;
            }
            if WATCH_ADDR[1] != 0 && WATCH_ADDR[1] == addr {
                CLOCK += 1;
                WATCH_STAMP[1] = CLOCK;
                WATCH_HITS[1] += 1;
            }
            if WATCH_ADDR[2] != 0 && WATCH_ADDR[2] == addr {
                CLOCK += 1;
                WATCH_STAMP[2] = CLOCK;
                WATCH_HITS[2] += 1;
            }
        }
    }

    #[inline(always)]
    pub fn before(kind: u8, addr: usize) {
        #[cfg(not(kani))]
        super::sched::point(kind, addr);
        unsafe {
            if IN_ENV {
                return;
            }
            ACCESSES = ACCESSES.wrapping_add(1);
            if ENV_MODE != 0 {
                IN_ENV = true;
                <TheEnv as EnvDispatch>::step(kind, addr);
                IN_ENV = false;
            }
        }
    }

    #[inline(always)]
    pub fn wrote(kind: u8, addr: usize, old: usize, new: usize) {
        note(addr);
        unsafe {
            if IN_ENV {
                return;
            }
            if ENV_MODE != 0 {
                IN_ENV = true;
                <TheEnv as EnvDispatch>::wrote(kind, addr, old, new);
                IN_ENV = false;
            }
        }
    }

    /// nondeterministic choice: `kani::any()` under Kani, recorded value natively
    #[cfg(kani)]
    pub fn oracle_usize() -> usize {
        kani::any()
    }
    #[cfg(kani)]
    pub fn oracle_bool() -> bool {
        kani::any()
    }
    #[cfg(kani)]
    pub fn oracle_u8() -> u8 {
        kani::any()
    }

    #[cfg(not(kani))]
    pub static mut RECORDED: Vec<u64> = Vec::new();
    #[cfg(not(kani))]
    pub static mut RECORDED_POS: usize = 0;
    #[cfg(not(kani))]
    fn next_recorded() -> u64 {
        unsafe {
            let rec = &*std::ptr::addr_of!(RECORDED);
            let v = if RECORDED_POS < rec.len() { rec[RECORDED_POS] } else { 0 };
            RECORDED_POS += 1;
            v
        }
    }
    #[cfg(not(kani))]
    pub fn oracle_usize() -> usize {
        next_recorded() as usize
    }
    #[cfg(not(kani))]
    pub fn oracle_bool() -> bool {
        next_recorded() != 0
    }
    #[cfg(not(kani))]
    pub fn oracle_u8() -> u8 {
        next_recorded() as u8
    }

    /// assumption / assertion that work both under Kani and natively (replay)
    #[cfg(kani)]
    pub fn assume(c: bool) {
        kani::assume(c)
    }
    #[cfg(not(kani))]
    pub fn assume(c: bool) {
        if !c {
            panic!("replay: assumption not met by the recorded values");
        }
    }
}

// ---------------------------------------------------------------------------------------------
// native schedule control: suspend one real thread just before its n-th shared-memory operation so
// that other REAL threads can run REAL operations in the gap (deterministic replay of an interleaving
// on the real code; used by native/src/bin/findings.rs)

#[cfg(not(kani))]
pub mod sched {
    use std::cell::Cell;
    use std::sync::atomic::{AtomicBool, AtomicUsize, Ordering};

    thread_local! {
        /// 0 = not under schedule control; otherwise this thread's tag
        pub static TAG: Cell<usize> = Cell::new(0);
        static COUNT: Cell<usize> = Cell::new(0);
    }
    pub static PAUSE_TAG: AtomicUsize = AtomicUsize::new(0);
    pub static PAUSE_AT: AtomicUsize = AtomicUsize::new(0);
    pub static PAUSED: AtomicBool = AtomicBool::new(false);
    pub static RESUME: AtomicBool = AtomicBool::new(false);
    pub static PAUSED_KIND: AtomicUsize = AtomicUsize::new(99);

    /// tag the calling thread and reset its operation counter
    pub fn enter(tag: usize) {
        TAG.with(|t| t.set(tag));
        COUNT.with(|c| c.set(0));
    }
    /// arrange for the thread tagged `tag` to stop just before its `nth` shared-memory operation (1-based)
    pub fn pause_thread_at(tag: usize, nth: usize) {
        PAUSED.store(false, Ordering::SeqCst);
        RESUME.store(false, Ordering::SeqCst);
        PAUSE_AT.store(nth, Ordering::SeqCst);
        PAUSE_TAG.store(tag, Ordering::SeqCst);
    }
    pub fn wait_until_paused() {
        while !PAUSED.load(Ordering::SeqCst) {
            std::thread::yield_now();
        }
    }
    pub fn resume() {
        PAUSE_TAG.store(0, Ordering::SeqCst);
        RESUME.store(true, Ordering::SeqCst);
    }
    #[inline(always)]
    pub fn point(kind: u8, _addr: usize) {
        let tag = TAG.with(|t| t.get());
        if tag == 0 || tag != PAUSE_TAG.load(Ordering::SeqCst) {
            return;
        }
        let n = COUNT.with(|c| {
            c.set(c.get() + 1);
            c.get()
        });
        if n == PAUSE_AT.load(Ordering::SeqCst) {
            PAUSED_KIND.store(kind as usize, Ordering::SeqCst);
            PAUSED.store(true, Ordering::SeqCst);
            while !RESUME.load(Ordering::SeqCst) {
                std::thread::yield_now();
            }
        }
    }
}

// ---------------------------------------------------------------------------------------------
// atomics

#[repr(transparent)]
pub struct AtomicUsize {
    v: std::sync::atomic::AtomicUsize,
}

impl AtomicUsize {
    #[inline(always)]
    pub const fn new(v: usize) -> AtomicUsize {
        AtomicUsize { v: std::sync::atomic::AtomicUsize::new(v) }
    }
    #[inline(always)]
    fn addr(&self) -> usize {
        self as *const AtomicUsize as usize
    }
    #[inline(always)]
    pub fn load(&self, o: Ordering) -> usize {
        rt::before(K_LOAD, self.addr());
        self.v.load(o)
    }
    #[inline(always)]
    pub fn store(&self, val: usize, o: Ordering) {
        rt::before(K_STORE, self.addr());
        let old = self.v.load(Ordering::Relaxed);
        self.v.store(val, o);
        rt::wrote(K_STORE, self.addr(), old, val);
    }
    #[inline(always)]
    pub fn fetch_add(&self, val: usize, o: Ordering) -> usize {
        rt::before(K_RMW, self.addr());
        let old = self.v.fetch_add(val, o);
        rt::wrote(K_RMW, self.addr(), old, old.wrapping_add(val));
        old
    }
    #[inline(always)]
    pub fn fetch_sub(&self, val: usize, o: Ordering) -> usize {
        rt::before(K_RMW, self.addr());
        let old = self.v.fetch_sub(val, o);
        rt::wrote(K_RMW, self.addr(), old, old.wrapping_sub(val));
        old
    }
    #[inline(always)]
    pub fn fetch_or(&self, val: usize, o: Ordering) -> usize {
        rt::before(K_RMW, self.addr());
        let old = self.v.fetch_or(val, o);
        rt::wrote(K_RMW, self.addr(), old, old | val);
        old
    }
    #[inline(always)]
    pub fn fetch_and(&self, val: usize, o: Ordering) -> usize {
        rt::before(K_RMW, self.addr());
        let old = self.v.fetch_and(val, o);
        rt::wrote(K_RMW, self.addr(), old, old & val);
        old
    }
    #[inline(always)]
    pub fn compare_exchange(&self, cur: usize, new: usize, s: Ordering, f: Ordering) -> Result<usize, usize> {
        rt::before(K_CAS, self.addr());
        let r = self.v.compare_exchange(cur, new, s, f);
        if r.is_ok() {
            rt::wrote(K_CAS, self.addr(), cur, new);
        }
        r
    }
    /// modelled without spurious failure (assumption listed under C18)
    #[inline(always)]
    pub fn compare_exchange_weak(&self, cur: usize, new: usize, s: Ordering, f: Ordering) -> Result<usize, usize> {
        rt::before(K_CAS, self.addr());
        let r = self.v.compare_exchange(cur, new, s, f);
        if r.is_ok() {
            rt::wrote(K_CAS, self.addr(), cur, new);
        }
        r
    }
    /// harness-side access that is *not* reported (ghost reads of the state)
    #[inline(always)]
    pub fn peek(&self) -> usize {
        self.v.load(Ordering::Relaxed)
    }
    #[inline(always)]
    pub fn poke(&self, val: usize) {
        self.v.store(val, Ordering::Relaxed)
    }
}

impl Default for AtomicUsize {
    fn default() -> AtomicUsize {
        AtomicUsize::new(0)
    }
}

#[repr(transparent)]
pub struct AtomicPtr<T> {
    v: std::sync::atomic::AtomicPtr<T>,
}

impl<T> AtomicPtr<T> {
    #[inline(always)]
    pub const fn new(p: *mut T) -> AtomicPtr<T> {
        AtomicPtr { v: std::sync::atomic::AtomicPtr::new(p) }
    }
    #[inline(always)]
    fn addr(&self) -> usize {
        self as *const AtomicPtr<T> as usize
    }
    #[inline(always)]
    pub fn load(&self, o: Ordering) -> *mut T {
        rt::before(K_LOAD, self.addr());
        self.v.load(o)
    }
    #[inline(always)]
    pub fn store(&self, p: *mut T, o: Ordering) {
        rt::before(K_STORE, self.addr());
        let old = self.v.load(Ordering::Relaxed);
        self.v.store(p, o);
        rt::wrote(K_STORE, self.addr(), old as usize, p as usize);
    }
    #[inline(always)]
    pub fn compare_exchange(&self, cur: *mut T, new: *mut T, s: Ordering, f: Ordering) -> Result<*mut T, *mut T> {
        rt::before(K_CAS, self.addr());
        let r = self.v.compare_exchange(cur, new, s, f);
        if r.is_ok() {
            rt::wrote(K_CAS, self.addr(), cur as usize, new as usize);
        }
        r
    }
    #[inline(always)]
    pub fn peek(&self) -> *mut T {
        self.v.load(Ordering::Relaxed)
    }
    #[inline(always)]
    pub fn poke(&self, p: *mut T) {
        self.v.store(p, Ordering::Relaxed)
    }
}

#[inline(always)]
pub fn fence(o: Ordering) {
    rt::before(K_FENCE, 0);
    std::sync::atomic::fence(o)
}

#[inline(always)]
pub fn yield_now() {
    unsafe {
        rt::YIELDS = rt::YIELDS.wrapping_add(1);
    }
    rt::before(K_YIELD, 0);
    #[cfg(not(kani))]
    std::thread::yield_now();
}

// ---------------------------------------------------------------------------------------------
// std::sync::Mutex shim (memory.rs).  Under Kani: Cell-based, single-threaded; `lock` on a held
// mutex is a self-deadlock and is reported; `try_lock` on a held mutex fails (memory.rs relies on
// that in remove_token -> free).

#[cfg(kani)]
mod std_mutex {
    use super::*;
    use std::cell::{Cell, UnsafeCell};
    use std::ops::{Deref, DerefMut};

    pub struct Mutex<T> {
        held: Cell<bool>,
        data: UnsafeCell<T>,
    }
    #[derive(Debug)]
    pub struct LockError;
    pub struct MutexGuard<'a, T> {
        m: &'a Mutex<T>,
    }
    impl<T> Mutex<T> {
        pub fn new(t: T) -> Mutex<T> {
            Mutex { held: Cell::new(false), data: UnsafeCell::new(t) }
        }
        pub fn lock(&self) -> Result<MutexGuard<'_, T>, LockError> {
            rt::before(K_LOCK, self as *const _ as usize);
            unsafe {
                rt::LOCKS_TAKEN = rt::LOCKS_TAKEN.wrapping_add(1);
            }
            assert!(!self.held.get(), "self-deadlock: std Mutex locked while held by the same thread");
            self.held.set(true);
            Ok(MutexGuard { m: self })
        }
        pub fn try_lock(&self) -> Result<MutexGuard<'_, T>, LockError> {
            rt::before(K_LOCK, self as *const _ as usize);
            if self.held.get() {
                Err(LockError)
            } else {
                self.held.set(true);
                Ok(MutexGuard { m: self })
            }
        }
        pub fn is_held(&self) -> bool {
            self.held.get()
        }
        /// harness-side access to the protected data (no locking)
        pub unsafe fn peek(&self) -> &mut T {
            &mut *self.data.get()
        }
    }
    impl<'a, T> Deref for MutexGuard<'a, T> {
        type Target = T;
        fn deref(&self) -> &T {
            unsafe { &*self.m.data.get() }
        }
    }
    impl<'a, T> DerefMut for MutexGuard<'a, T> {
        fn deref_mut(&mut self) -> &mut T {
            unsafe { &mut *self.m.data.get() }
        }
    }
    impl<'a, T> Drop for MutexGuard<'a, T> {
        fn drop(&mut self) {
            self.m.held.set(false);
        }
    }
}

#[cfg(not(kani))]
mod std_mutex {
    use super::*;
    pub struct Mutex<T> {
        m: std::sync::Mutex<T>,
    }
    impl<T> Mutex<T> {
        pub fn new(t: T) -> Mutex<T> {
            Mutex { m: std::sync::Mutex::new(t) }
        }
        pub fn lock(&self) -> std::sync::LockResult<std::sync::MutexGuard<'_, T>> {
            rt::before(K_LOCK, self as *const _ as usize);
            unsafe {
                rt::LOCKS_TAKEN = rt::LOCKS_TAKEN.wrapping_add(1);
            }
            self.m.lock()
        }
        pub fn try_lock(&self) -> std::sync::TryLockResult<std::sync::MutexGuard<'_, T>> {
            rt::before(K_LOCK, self as *const _ as usize);
            self.m.try_lock()
        }
        /// harness-side access to the protected data (replay only; takes the lock briefly)
        pub unsafe fn peek(&self) -> &mut T {
            let mut g = self.m.lock().unwrap();
            &mut *(&mut *g as *mut T)
        }
    }
}
pub use self::std_mutex::Mutex;

// ---------------------------------------------------------------------------------------------
// parking_lot shim (wait.rs, FutWait)

pub mod parking_lot {
    #[cfg(kani)]
    mod imp {
        use super::super::*;
        use std::cell::{Cell, UnsafeCell};
        use std::ops::{Deref, DerefMut};

        pub struct Mutex<T> {
            held: Cell<bool>,
            data: UnsafeCell<T>,
        }
        pub struct MutexGuard<'a, T> {
            m: &'a Mutex<T>,
        }
        impl<T> Mutex<T> {
            pub fn new(t: T) -> Mutex<T> {
                Mutex { held: Cell::new(false), data: UnsafeCell::new(t) }
            }
            pub fn lock(&self) -> MutexGuard<'_, T> {
                rt::before(K_LOCK, self as *const _ as usize);
                rt::note(self as *const _ as usize);
                unsafe {
                    rt::LOCKS_TAKEN = rt::LOCKS_TAKEN.wrapping_add(1);
                }
                assert!(!self.held.get(), "self-deadlock: parking_lot Mutex locked while held by the same thread");
                self.held.set(true);
                MutexGuard { m: self }
            }
            pub fn is_held(&self) -> bool {
                self.held.get()
            }
            pub unsafe fn peek(&self) -> &mut T {
                &mut *self.data.get()
            }
        }
        impl<T: Default> Default for Mutex<T> {
            fn default() -> Mutex<T> {
                Mutex::new(T::default())
            }
        }
        impl<'a, T> Deref for MutexGuard<'a, T> {
            type Target = T;
            fn deref(&self) -> &T {
                unsafe { &*self.m.data.get() }
            }
        }
        impl<'a, T> DerefMut for MutexGuard<'a, T> {
            fn deref_mut(&mut self) -> &mut T {
                unsafe { &mut *self.m.data.get() }
            }
        }
        impl<'a, T> Drop for MutexGuard<'a, T> {
            fn drop(&mut self) {
                self.m.held.set(false);
            }
        }

        /// Condition variable: `wait` releases the lock, lets the environment run (that is the
        /// only way anything can change while this thread sleeps), and re-acquires the lock.
        /// Ghost: counts waits; records whether the waiter held the lock it passed.
        #[derive(Default)]
        pub struct Condvar {
            _p: u8,
        }
        impl Condvar {
            pub fn new() -> Condvar {
                Condvar { _p: 0 }
            }
            pub fn wait<T>(&self, g: &mut MutexGuard<'_, T>) {
                assert!(g.m.held.get(), "Condvar::wait without holding the lock");
                unsafe {
                    rt::CONDVAR_WAITS = rt::CONDVAR_WAITS.wrapping_add(1);
                }
                g.m.held.set(false);
                rt::before(K_CONDWAIT, self as *const _ as usize);
                g.m.held.set(true);
            }
            pub fn notify_all(&self) -> usize {
                rt::before(K_RMW, self as *const _ as usize);
                rt::wrote(K_CONDWAIT, self as *const _ as usize, 0, 1);
                0
            }
        }
    }

    #[cfg(not(kani))]
    mod imp {
        extern crate parking_lot as real;
        use super::super::*;

        pub struct Mutex<T> {
            m: real::Mutex<T>,
        }
        pub type MutexGuard<'a, T> = real::MutexGuard<'a, T>;
        impl<T> Mutex<T> {
            pub fn new(t: T) -> Mutex<T> {
                Mutex { m: real::Mutex::new(t) }
            }
            pub fn lock(&self) -> MutexGuard<'_, T> {
                rt::before(K_LOCK, self as *const _ as usize);
                unsafe {
                    rt::LOCKS_TAKEN = rt::LOCKS_TAKEN.wrapping_add(1);
                }
                self.m.lock()
            }
            /// harness-side access (replay only)
            pub unsafe fn peek(&self) -> &mut T {
                let mut g = self.m.lock();
                &mut *(&mut *g as *mut T)
            }
        }
        impl<T: Default> Default for Mutex<T> {
            fn default() -> Mutex<T> {
                Mutex::new(T::default())
            }
        }
        #[derive(Default)]
        pub struct Condvar {
            c: real::Condvar,
        }
        impl Condvar {
            pub fn new() -> Condvar {
                Condvar { c: real::Condvar::new() }
            }
            pub fn wait<T>(&self, g: &mut MutexGuard<'_, T>) {
                unsafe {
                    rt::CONDVAR_WAITS = rt::CONDVAR_WAITS.wrapping_add(1);
                }
                rt::before(K_CONDWAIT, self as *const _ as usize);
                self.c.wait(g)
            }
            pub fn notify_all(&self) -> usize {
                rt::before(K_RMW, self as *const _ as usize);
                self.c.notify_all()
            }
        }
    }
    pub use self::imp::{Condvar, Mutex, MutexGuard};
}

// ---------------------------------------------------------------------------------------------
// allocation ledger (alloc.rs hook)

pub mod ledger {
    /// live allocations made through crate::alloc (count and byte-blind identity by address)
    pub const CAP: usize = 24;
    /// entries of the table actually used (loops over the table are bounded by this)
    pub static mut CAP_USED: usize = 8;
    pub static mut LIVE_ADDR: [usize; CAP] = [0; CAP];
    pub static mut LIVE_N: usize = 0;
    pub static mut ALLOCS: usize = 0;
    pub static mut DEALLOCS: usize = 0;
    pub static mut BAD_FREE: usize = 0; // deallocate of an address that is not live (double free)
    pub static mut ON: bool = false;
    /// live allocations by size class (bytes/8, capped at 15) -- diagnostics for the native demos
    pub static mut SIZE_HIST: [isize; 16] = [0; 16];
}

pub fn on_allocate(addr: usize, num: usize, size: usize) {
    unsafe {
        if !ledger::ON {
            return;
        }
        ledger::ALLOCS += 1;
        if num * size == 0 {
            return;
        }
        #[cfg(not(kani))]
        {
            let c = if num * size / 8 > 15 { 15 } else { num * size / 8 };
            ledger::SIZE_HIST[c] += 1;
        }
        let mut i = 0;
        while i < ledger::CAP_USED {
            if ledger::LIVE_ADDR[i] == 0 {
                ledger::LIVE_ADDR[i] = addr;
                ledger::LIVE_N += 1;
                return;
            }
            i += 1;
        }
        ledger::LIVE_N += 1; // overflow of the table: still counted
    }
}

pub fn on_deallocate(addr: usize, num: usize, size: usize) {
    unsafe {
        if !ledger::ON {
            return;
        }
        ledger::DEALLOCS += 1;
        if num * size == 0 {
            return;
        }
        #[cfg(not(kani))]
        {
            let c = if num * size / 8 > 15 { 15 } else { num * size / 8 };
            ledger::SIZE_HIST[c] -= 1;
        }
        let mut i = 0;
        while i < ledger::CAP_USED {
            if ledger::LIVE_ADDR[i] == addr {
                ledger::LIVE_ADDR[i] = 0;
                ledger::LIVE_N -= 1;
                return;
            }
            i += 1;
        }
        ledger::BAD_FREE += 1;
    }
}

// ---------------------------------------------------------------------------------------------
// harness payload with a drop ledger (C01, C04, C05)

pub mod pay {
    #[cfg(kani)]
    pub const MAXSER: usize = 24;
    #[cfg(not(kani))]
    pub const MAXSER: usize = 512;
    /// per-instance state: 0 = never created, 1 = live, 2 = dropped
    pub static mut STATE: [u8; MAXSER] = [0; MAXSER];
    pub static mut NEXT: usize = 0;
    pub static mut DOUBLE_DROP: usize = 0;
    pub static mut DROP_OF_UNCREATED: usize = 0;
    pub static mut CLONES: usize = 0;
    pub static mut DROPS: usize = 0;
    /// set while a Clone / view closure of the payload is running (C04)
    pub static mut IN_USER: usize = 0;

    /// A payload the queue cannot look into: a logical value plus an instance serial.
    pub struct Pay {
        pub val: usize,
        pub ser: usize,
    }

    impl Pay {
        pub fn new(val: usize) -> Pay {
            unsafe {
                let ser = NEXT;
                assert!(ser < MAXSER, "payload ledger exhausted");
                NEXT += 1;
                STATE[ser] = 1;
                Pay { val, ser }
            }
        }
        pub fn is_live(&self) -> bool {
            unsafe { self.ser < MAXSER && STATE[self.ser] == 1 }
        }
    }

    impl Clone for Pay {
        fn clone(&self) -> Pay {
            unsafe {
                assert!(self.ser < MAXSER && STATE[self.ser] == 1, "C04/C05: clone of a payload that is not live");
                IN_USER += 1;
                let v0 = self.val;
                let s0 = self.ser;
                super::rt::before(super::K_USER, self as *const Pay as usize);
                // the value must not change (and must stay live) while the clone is running
                assert!(self.val == v0 && self.ser == s0, "C04: payload changed during clone");
                assert!(STATE[self.ser] == 1, "C04: payload destroyed during clone");
                IN_USER -= 1;
                CLONES += 1;
                Pay::new(self.val)
            }
        }
    }

    impl Drop for Pay {
        fn drop(&mut self) {
            unsafe {
                DROPS += 1;
                if self.ser >= MAXSER || STATE[self.ser] == 0 {
                    DROP_OF_UNCREATED += 1;
                } else if STATE[self.ser] == 2 {
                    DOUBLE_DROP += 1;
                } else {
                    STATE[self.ser] = 2;
                }
            }
        }
    }

    pub fn live_count() -> usize {
        unsafe {
            let mut n = 0;
            let mut i = 0;
            while i < MAXSER {
                if STATE[i] == 1 {
                    n += 1;
                }
                i += 1;
            }
            n
        }
    }
}

// ---------------------------------------------------------------------------------------------
// a do-nothing wait strategy for end-to-end harnesses that go through the public constructors

pub struct EWait {
    pub notify: bool,
}
impl crate::wait::Wait for EWait {
    fn wait(&self, _seq: usize, _at: &AtomicUsize, _wc: &AtomicUsize) {
        panic!("end-to-end harness: a blocking wait was entered");
    }
    fn notify(&self) {}
    fn needs_notify(&self) -> bool {
        self.notify
    }
}
