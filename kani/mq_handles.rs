// Sequential contracts on the handle layer (S4, S7, S8, S9, S10, S11).  Included into
// multiqueue::verif_contracts.

unsafe fn ledger_has(addr: usize) -> bool {
    let mut i = 0;
    let mut r = false;
    while i < ledger::CAP_USED {
        if ledger::LIVE_ADDR[i] == addr {
            r = true;
        }
        i += 1;
    }
    r
}

pub static mut VIEW_CALLS: usize = 0;
pub static mut VIEW_SER: usize = 0;
pub static mut VIEW_VAL: usize = 0;
pub static mut VIEW_LIVE: bool = false;

/// the view closure used by harnesses: observes the payload, yields to the environment in the
/// middle, and checks the payload did not change or die while it was being looked at (C04)
pub fn view_fn(p: &Pay) -> usize {
    unsafe {
        VIEW_CALLS += 1;
        VIEW_SER = p.ser;
        VIEW_VAL = p.val;
        VIEW_LIVE = p.is_live();
        pay::IN_USER += 1;
        rt::before(K_USER, p as *const Pay as usize);
        assert!(p.val == VIEW_VAL && p.ser == VIEW_SER, "C04: payload changed during the view closure");
        assert!(p.is_live() == VIEW_LIVE, "C04: payload destroyed during the view closure");
        pay::IN_USER -= 1;
        p.val
    }
}

unsafe fn mk_recv<RW: QueueRW<Pay>>(w: &World<RW>, i: usize) -> InnerRecv<RW, Pay> {
    let reader: Reader = match &w.rd[i] {
        Some(r) => r.clone(),
        None => unreachable!(),
    };
    InnerRecv { queue: w.q.arc(), reader, token: w.q.manager.get_token(), alive: true }
}

unsafe fn mk_send<RW: QueueRW<Pay>>(w: &World<RW>, uni: bool) -> InnerSend<RW, Pay> {
    InnerSend {
        queue: w.q.arc(),
        token: w.q.manager.get_token(),
        state: Cell::new(if uni { QueueState::Uni } else { QueueState::Multi }),
    }
}

fn is_uni(s: QueueState) -> bool {
    match s {
        QueueState::Uni => true,
        QueueState::Multi => false,
    }
}

/// common postcondition of a failed receive (Empty / Disconnected): nothing changed
unsafe fn post_recv_nothing(a0: &Alpha, a1: &Alpha, i: usize, drops0: usize, clones0: usize) {
    assert!(a1.head == a0.head && a1.writers == a0.writers && a1.tail_cache == a0.tail_cache);
    assert!(same_except_slot(a0, a1, usize::MAX) && same_streams(a0, a1));
    assert!(a1.pos[i] == a0.pos[i] && pay::DROPS == drops0 && pay::CLONES == clones0);
}

// ---------------------------------------------------------------------------------------------
// S1p / S2p: a producer never claims a slot that a consumer has pinned

/// try_send_{single,multi} on a broadcast queue from an arbitrary state that is well-formed except that
/// the slot the next send would write carries ONE pin of a sibling consumer (a consumer of a shared stream
/// that validated its position earlier and is still cloning while the stream has moved on): whatever the
/// cache says and whichever writer mode is used, the send must be refused (value handed back, nothing
/// written), because writing would destroy the value under the consumer's clone.
pub unsafe fn s_try_send_pinned<RW: QueueRW<Pay>>(n: usize, k: usize, kind: SendKind) {
    let w = World::<RW>::arbitrary(n, k, false, false);
    let a0 = w.a;
    let slot = a0.slot_of(a0.head);
    // the pinned value is the one a full lap behind the claim counter
    rt::assume(a0.tag[slot] != INITIAL_QUEUE_FLAG);
    (*w.q.refs.add(slot)).refcnt.poke(1);
    let v: usize = rt::oracle_usize();
    let p = Pay::new(v);
    let pser = p.ser;
    let drops0 = pay::DROPS;
    let r = match kind {
        SendKind::Single => w.q.try_send_single(p),
        SendKind::Multi => w.q.try_send_multi(p),
    };
    let a1 = w.observe();
    match r {
        Err(TrySendError::Full(back)) => {
            assert!(back.ser == pser && back.val == v && back.is_live(), "C01: refused value handed back intact");
            mem::forget(back);
        }
        _ => assert!(false, "C04/C12: a producer claimed a slot that a consumer holds a pin on (single- or multi-writer mode, fresh or stale cache alike)"),
    }
    assert!(a1.head == a0.head && same_except_slot(&a0, &a1, usize::MAX) && pay::DROPS == drops0, "C04: nothing may be written or destroyed while the slot is pinned");
    assert!(a1.refcnt[slot] == 1, "a producer never touches the pin count");
    kani_cover!(!a0.full() && a0.tail_cache != a0.min_pos(), "pinned slot with room and a stale cache reachable");
    kani_cover!(!a0.full() && a0.tail_cache == a0.min_pos(), "pinned slot with room and a fresh cache reachable");
    mem::forget(w);
}

// ---------------------------------------------------------------------------------------------
// S4: try_recv_view on a sole-consumer stream

/// Contract of MultiQueue::try_recv_view(view_fn, reader of stream i), stream with ONE consumer.
///   cursor < head ==> Ok(view_fn(slot value)); the closure ran exactly once, on the slot's own
///                     instance, which was live; broadcast: instance stays live in the slot;
///                     move-out: instance destroyed exactly once, after the closure; cursor+1
///   cursor = head ==> Empty / Disconnected as for try_recv, closure handed back and never run
pub unsafe fn s_try_recv_view<RW: QueueRW<Pay>>(n: usize, k: usize, mpmc: bool) {
    let w = World::<RW>::arbitrary(n, k, mpmc, false);
    let a0 = w.a;
    let i: usize = rt::oracle_usize();
    rt::assume(i < a0.k && a0.ncons[i] == 1);
    let reader: &Reader = match &w.rd[i] {
        Some(r) => r,
        None => unreachable!(),
    };
    let drops0 = pay::DROPS;
    let clones0 = pay::CLONES;
    let cur = a0.pos[i];
    let slot = a0.slot_of(cur);
    VIEW_CALLS = 0;

    let r = w.q.try_recv_view(view_fn, reader);

    let a1 = w.observe();
    assert!(pay::DOUBLE_DROP == 0 && pay::DROP_OF_UNCREATED == 0, "C05: double drop / drop of garbage");
    match r {
        Ok(x) => {
            assert!(cur < a0.head, "C01: value delivered that was never sent");
            assert!(VIEW_CALLS == 1, "C01: view closure must run exactly once per delivered value");
            assert!(x == a0.val[slot] && VIEW_SER == a0.ser[slot], "C01/C02/C04: the closure saw the slot's own instance of count cursor");
            assert!(VIEW_LIVE, "C04: the viewed value must be live");
            assert!(pay::CLONES == clones0, "view never clones");
            if mpmc {
                assert!(pay::DROPS == drops0 + 1 && pay::STATE[a0.ser[slot]] == 2, "C05: viewed move-out value destroyed exactly once");
            } else {
                assert!(pay::DROPS == drops0 && pay::STATE[a0.ser[slot]] == 1, "C05: viewed broadcast value stays live for other streams");
            }
            assert!(a1.pos[i] == cur + 1, "C01: cursor advances by exactly one");
            assert!(a1.head == a0.head && a1.writers == a0.writers && a1.tail_cache == a0.tail_cache);
            assert!(same_except_slot(&a0, &a1, usize::MAX));
        }
        Err((_f, pt, TryRecvError::Empty)) => {
            assert!(cur == a0.head && a0.writers > 0, "C06/C07: Empty only when drained and a sender is alive");
            assert!(VIEW_CALLS == 0);
            assert!(pt as usize == &(*w.q.data.add(slot)).wraps as *const AtomicUsize as usize, "C08: wait cell is the slot of the cursor");
            post_recv_nothing(&a0, &a1, i, drops0, clones0);
        }
        Err((_f, pt, TryRecvError::Disconnected)) => {
            assert!(cur == a0.head && a0.writers == 0, "C07: end reported only when drained and no sender is alive");
            assert!(VIEW_CALLS == 0 && pt.is_null());
            post_recv_nothing(&a0, &a1, i, drops0, clones0);
        }
    }
    assert!(World::<RW>::wf(&a1, mpmc), "C06: well-formedness re-established after view");
    kani_cover!(cur < a0.head, "non-empty reachable");
    kani_cover!(cur == a0.head, "drained reachable");
    mem::forget(w);
}

// ---------------------------------------------------------------------------------------------
// S7: InnerSend::try_send

/// Contract of InnerSend::try_send from an arbitrary wf state with this handle alive.
///   * epoch flag set  ==> the handle announces the current epoch before operating (C16)
///   * no stream left  ==> Err(Disconnected(same instance)), nothing written, nobody notified (C13)
///   * otherwise       ==> exactly the ring-level send contract (single- or multi-writer path
///                         chosen unobservably: C12), handle mode Uni afterwards only if it is the
///                         sole sender, waiter notified iff accepted and the strategy needs it
pub unsafe fn s_inner_try_send<RW: QueueRW<Pay>>(n: usize, k: usize, mpmc: bool) {
    let notify = rt::oracle_bool();
    let w = World::<RW>::arbitrary(n, k, mpmc, notify);
    let a0 = w.a;
    rt::assume(a0.writers >= 1);
    let uni = rt::oracle_bool();
    rt::assume(!uni || a0.writers == 1);
    let ep = rt::oracle_bool();
    if ep {
        w.q.manager.signal.set_epoch(SeqCst);
    }
    let ge: usize = rt::oracle_usize();
    w.q.manager.vf_set_epoch(ge);
    let tx = mk_send(&w, uni);
    let te0: usize = rt::oracle_usize();
    MemoryManager::vf_set_token_epoch(tx.token, te0);
    let v: usize = rt::oracle_usize();
    let p = Pay::new(v);
    let pser = p.ser;
    let drops0 = pay::DROPS;
    let clones0 = pay::CLONES;
    HW_NOTIFY_CALLS = 0;
    HW_NOTIFY_STAMP = 0;
    // watch the tag cell of the slot that an accepted send publishes
    rt::WATCH_ADDR = [0, 0, &(*w.q.data.add(a0.slot_of(a0.head))).wraps as *const AtomicUsize as usize, 0];
    rt::WATCH_STAMP = [0; 4];
    rt::WATCH_HITS = [0; 4];

    let r = tx.try_send(p);

    let a1 = w.observe();
    let te1 = MemoryManager::vf_token_epoch(tx.token);
    assert!(te1 == if ep { ge } else { te0 }, "C16/C17: a flagged handle announces the current epoch at the start of the operation, an unflagged one does not touch its token");
    if a0.k == 0 {
        match r {
            Err(TrySendError::Disconnected(back)) => {
                assert!(back.ser == pser && back.val == v && back.is_live(), "C13: value handed back intact");
                mem::forget(back);
            }
            Err(TrySendError::Full(back)) => {
                assert!(false, "C13: with no receiver left try_send must report Disconnected, not Full");
                mem::forget(back);
            }
            Ok(()) => assert!(false, "C13: send accepted although no receiver is left"),
        }
        assert!(a1.head == a0.head && same_except_slot(&a0, &a1, usize::MAX) && a1.writers == a0.writers, "C13: nothing written");
        assert!(pay::DROPS == drops0 && HW_NOTIFY_CALLS == 0);
    } else {
        let ok = r.is_ok();
        post_send::<RW>(&a0, &a1, r, v, pser, drops0, clones0, mpmc);
        assert!(!(ok && notify) || HW_NOTIFY_CALLS >= 1, "C08/C14: the waiter is notified when a value was accepted and the strategy needs notification");
        assert!(!(ok && notify) || HW_NOTIFY_STAMP > rt::WATCH_STAMP[2], "C08/C14: the waiter must be notified AFTER the value was published (a waiter woken earlier re-checks, finds nothing and sleeps for good)");
        let uni1 = is_uni(tx.state.get());
        assert!(!uni1 || a0.writers == 1, "C12: single-writer mode only while this is the sole sender");
        kani_cover!(!uni && uni1, "switch back to single-writer reachable");
        kani_cover!(!uni && !uni1, "multi-writer path reachable");
    }
    kani_cover!(ep && te0 != ge, "epoch announcement reachable");
    mem::forget(tx);
    mem::forget(w);
}

// ---------------------------------------------------------------------------------------------
// S8: InnerRecv::{try_recv, recv, try_recv_view, recv_view}

#[derive(Clone, Copy, PartialEq)]
pub enum RecvKind {
    Try,
    Block,
    TryView,
    BlockView,
}

/// Contract of the four receive entry points of InnerRecv on stream i.
/// Blocking forms run under the scripted wake-up: when the strategy's `wait` is entered the
/// environment either publishes one value (if the ring has room and a sender lives) or lets every
/// sender go.  Post: a value is returned iff one was available (initially or after the wake-up) and
/// it is payload[cursor]; the end is returned iff drained and no sender is alive; the loop re-tries
/// after `wait` returns; `wait` is entered at most once and with (seq, cell, writer count) = (cursor,
/// tag cell of slot cursor&mask, this queue's writer counter).
pub unsafe fn s_inner_recv<RW: QueueRW<Pay>>(n: usize, k: usize, mpmc: bool, kind: RecvKind) {
    let w = World::<RW>::arbitrary(n, k, mpmc, false);
    let a0 = w.a;
    let i: usize = rt::oracle_usize();
    rt::assume(i < a0.k);
    let view = kind == RecvKind::TryView || kind == RecvKind::BlockView;
    if view {
        rt::assume(a0.ncons[i] == 1);
    }
    let ep = rt::oracle_bool();
    if ep {
        w.q.manager.signal.set_epoch(SeqCst);
    }
    let ge: usize = rt::oracle_usize();
    w.q.manager.vf_set_epoch(ge);
    let rx = mk_recv(&w, i);
    let te0: usize = rt::oracle_usize();
    MemoryManager::vf_set_token_epoch(rx.token, te0);
    let cur = a0.pos[i];
    let slot = a0.slot_of(cur);
    let drops0 = pay::DROPS;
    let clones0 = pay::CLONES;
    VIEW_CALLS = 0;
    HW_WAIT_CALLS = 0;
    ENV_WAKE_DID = 0;
    ENV_Q = &w.q.inner as *const MultiQueue<RW, Pay> as usize;
    ENV_MPMC = mpmc;
    rt::ENV_MODE = ENV_WAKE_SCRIPT;

    // outcome: Some(value) / None = end ; empty = would block (try forms)
    let mut got: Option<usize> = None;
    let mut got_ser = usize::MAX;
    let mut ended = false;
    let mut empty = false;
    match kind {
        RecvKind::Try => match rx.try_recv() {
            Ok(p) => {
                got = Some(p.val);
                got_ser = p.ser;
                assert!(p.is_live(), "C04: delivered value must be live");
                mem::forget(p);
            }
            Err(TryRecvError::Empty) => empty = true,
            Err(TryRecvError::Disconnected) => ended = true,
        },
        RecvKind::Block => match rx.recv() {
            Ok(p) => {
                got = Some(p.val);
                got_ser = p.ser;
                assert!(p.is_live(), "C04: delivered value must be live");
                mem::forget(p);
            }
            Err(RecvError) => ended = true,
        },
        RecvKind::TryView => match rx.try_recv_view(view_fn) {
            Ok(x) => got = Some(x),
            Err((_, TryRecvError::Empty)) => empty = true,
            Err((_, TryRecvError::Disconnected)) => ended = true,
        },
        RecvKind::BlockView => match rx.recv_view(view_fn) {
            Ok(x) => got = Some(x),
            Err((_, RecvError)) => ended = true,
        },
    }
    rt::ENV_MODE = ENV_OFF;

    let a1 = w.observe();
    let te1 = MemoryManager::vf_token_epoch(rx.token);
    assert!(te1 == if ep { ge } else { te0 }, "C16/C17: a flagged handle announces the current epoch at the start of the operation");
    assert!(pay::DOUBLE_DROP == 0 && pay::DROP_OF_UNCREATED == 0, "C05: double drop / drop of garbage");
    let blocking = kind == RecvKind::Block || kind == RecvKind::BlockView;
    if cur < a0.head {
        // a value was available at once
        assert!(got == Some(a0.val[slot]), "C01/C02: receive returns payload[cursor] when the stream is not drained");
        assert!(HW_WAIT_CALLS == 0, "C08: no wait when a value is available");
        assert!(a1.pos[i] == cur + 1, "C01: cursor advances by exactly one");
    } else if a0.writers == 0 {
        assert!(ended && got.is_none(), "C07: drained and no sender alive: the end is reported");
        assert!(HW_WAIT_CALLS == 0, "C08: no wait at the end of the stream");
        assert!(a1.pos[i] == cur);
    } else if !blocking {
        assert!(empty, "C06/C07: drained with a live sender: try-receive reports Empty (never the end)");
        assert!(HW_WAIT_CALLS == 0, "C18: try operations never enter the wait strategy");
        assert!(a1.pos[i] == cur);
    } else {
        // blocked once, woken by the scripted environment
        assert!(HW_WAIT_CALLS == 1, "C08: exactly one wait, then the loop re-tries");
        assert!(HW_LAST_SEQ == cur, "C08: wait is entered with the cursor as awaited count");
        assert!(HW_LAST_AT == &(*w.q.data.add(slot)).wraps as *const AtomicUsize as usize, "C08: wait cell is the tag cell of the slot where the awaited count will be published");
        assert!(HW_LAST_WC == &w.q.writers as *const AtomicUsize as usize, "C08: wait is given this queue's writer counter");
        if ENV_WAKE_DID == 1 {
            assert!(got == Some(ENV_WAKE_VAL), "C08/C01: woken receiver returns the value that was published");
            assert!(a1.pos[i] == cur + 1);
        } else {
            assert!(ended && got.is_none(), "C08/C07: woken by the last sender leaving: the end is reported");
        }
    }
    if got.is_some() && !view {
        if mpmc {
            assert!(pay::CLONES == clones0, "move-out never clones");
        } else {
            assert!(pay::CLONES == clones0 + 1 && got_ser != a0.ser[slot], "C05: broadcast hands out exactly one clone");
        }
    }
    if view {
        assert!(VIEW_CALLS == if got.is_some() { 1 } else { 0 }, "C01: view closure runs exactly once per delivered value");
    }
    kani_cover!(cur < a0.head, "value available reachable");
    kani_cover!(cur == a0.head && a0.writers == 0, "end reachable");
    kani_cover!(cur == a0.head && a0.writers > 0 && ENV_WAKE_DID == 1, "blocked then value reachable");
    kani_cover!(cur == a0.head && a0.writers > 0 && ENV_WAKE_DID == 2, "blocked then end reachable");
    mem::forget(rx);
    mem::forget(w);
}

// ---------------------------------------------------------------------------------------------
// S10: Clone / Drop / unsubscribe of the plain handles

/// Clone for InnerSend: writer count +1, both handles in multi-writer mode, new token registered
/// at the current epoch; nothing else changes.
pub unsafe fn s_clone_send<RW: QueueRW<Pay>>(n: usize, k: usize, mpmc: bool) {
    let w = World::<RW>::arbitrary(n, k, mpmc, false);
    let a0 = w.a;
    rt::assume(a0.writers >= 1);
    let uni = rt::oracle_bool();
    rt::assume(!uni || a0.writers == 1);
    let tx = mk_send(&w, uni);
    let nt0 = w.q.manager.vf_ntokens();
    let tx2 = tx.clone();
    let a1 = w.observe();
    assert!(a1.writers == a0.writers + 1, "C07/C12: clone registers exactly one more sender");
    assert!(!is_uni(tx.state.get()) && !is_uni(tx2.state.get()), "C01/C02/C03/C12: after a clone neither handle may use the single-writer path (a plain store to the claim counter would race with the other sender's compare-exchange)");
    assert!(w.q.manager.vf_ntokens() == nt0 + 1 && w.q.manager.vf_has_token(tx2.token) && tx2.token != tx.token, "C16: the clone gets its own registered token");
    assert!(MemoryManager::vf_token_epoch(tx2.token) == w.q.manager.vf_epoch(), "C16: new token starts at the current epoch");
    assert!(a1.head == a0.head && a1.tail_cache == a0.tail_cache && same_except_slot(&a0, &a1, usize::MAX) && same_streams(&a0, &a1));
    mem::forget(tx);
    mem::forget(tx2);
    mem::forget(w);
}

/// Drop for InnerSend: writer count -1, token unregistered and retired, waiter notified
/// (unconditionally: the end of the stream must wake blocked receivers), nothing else changes.
pub unsafe fn s_drop_send<RW: QueueRW<Pay>>(n: usize, k: usize, mpmc: bool) {
    let notify = rt::oracle_bool();
    let w = World::<RW>::arbitrary(n, k, mpmc, notify);
    let a0 = w.a;
    rt::assume(a0.writers >= 1);
    let uni = rt::oracle_bool();
    rt::assume(!uni || a0.writers == 1);
    let tx = mk_send(&w, uni);
    let tok = tx.token;
    let nt0 = w.q.manager.vf_ntokens();
    HW_NOTIFY_CALLS = 0;
    HW_NOTIFY_STAMP = 0;
    rt::WATCH_ADDR = [0, 0, &w.q.writers as *const AtomicUsize as usize, 0];
    rt::WATCH_STAMP = [0; 4];
    rt::WATCH_HITS = [0; 4];
    drop(tx);
    let a1 = w.observe();
    assert!(a1.writers == a0.writers - 1, "C07: dropping a sender unregisters exactly one sender");
    assert!(a1.writers > 0 || HW_NOTIFY_CALLS >= 1, "C07/C08/C14: dropping the last sender notifies the waiter (the end has been reached)");
    assert!(a1.writers > 0 || HW_NOTIFY_STAMP > rt::WATCH_STAMP[2], "C07/C08: the waiter must be notified AFTER the sender count dropped (woken earlier it still sees a live sender and sleeps for good)");
    assert!(w.q.manager.vf_ntokens() == nt0 - 1 && !w.q.manager.vf_has_token(tok), "C16/C17: the dropped handle's token is unregistered");
    assert!(a1.head == a0.head && a1.tail_cache == a0.tail_cache && same_except_slot(&a0, &a1, usize::MAX) && same_streams(&a0, &a1));
    mem::forget(w);
}

/// Clone for InnerRecv: consumer count of that stream +1, both handles in shared mode, same
/// position object, own token; nothing else changes.
pub unsafe fn s_clone_recv<RW: QueueRW<Pay>>(n: usize, k: usize, mpmc: bool) {
    let w = World::<RW>::arbitrary(n, k, mpmc, false);
    let a0 = w.a;
    let i: usize = rt::oracle_usize();
    rt::assume(i < a0.k);
    let rx = mk_recv(&w, i);
    let nt0 = w.q.manager.vf_ntokens();
    let rx2 = rx.clone();
    let a1 = w.observe();
    assert!(rx.reader.vf_consumers() == a0.ncons[i] + 1, "C11/C12: clone registers exactly one more consumer on its stream");
    assert!(!rx.reader.vf_is_single_state() && !rx2.reader.vf_is_single_state(), "C01/C12: after a clone neither handle may use the sole-consumer path (a plain store to the cursor would race with the other consumer's compare-exchange)");
    assert!(rx2.reader.vf_pos_ptr() == rx.reader.vf_pos_ptr(), "C01: the clone shares the stream's cursor");
    assert!(w.q.manager.vf_ntokens() == nt0 + 1 && w.q.manager.vf_has_token(rx2.token) && rx2.token != rx.token, "C16: the clone gets its own registered token");
    assert!(a1.head == a0.head && a1.writers == a0.writers && a1.tail_cache == a0.tail_cache && same_except_slot(&a0, &a1, usize::MAX));
    assert!(a1.k == a0.k && a1.pos[i] == a0.pos[i]);
    mem::forget(rx);
    mem::forget(rx2);
    mem::forget(w);
}

/// Drop / unsubscribe of an InnerRecv on stream i.
///   not the last handle ==> consumer count -1, stream list untouched, token unregistered
///   last handle         ==> the stream leaves the published list (all other streams keep their
///                           place, position and consumers), its position object and the old list are
///                           retired through the memory manager (not freed directly), the no-reader
///                           flag is raised iff no stream is left, `last_pos` records the position iff
///                           it was the only stream, token unregistered
///   unsubscribe() returns true exactly for the last handle
pub unsafe fn s_drop_recv<RW: QueueRW<Pay>>(n: usize, k: usize, mpmc: bool, via_unsubscribe: bool) {
    let w = World::<RW>::arbitrary(n, k, mpmc, false);
    let a0 = w.a;
    let i: usize = rt::oracle_usize();
    rt::assume(i < a0.k);
    let rx = mk_recv(&w, i);
    let tok = rx.token;
    let nt0 = w.q.manager.vf_ntokens();
    let lv0 = w.q.tail.vf_view();
    let g0 = w.q.tail.vf_group_ptr();
    let last = a0.ncons[i] == 1;
    let myposptr = rx.reader.vf_pos_ptr();
    let sig0 = w.q.manager.vf_signal_bits();
    let waiting0 = w.q.manager.vf_waiting();
    let bad0 = ledger::BAD_FREE;

    if via_unsubscribe {
        let r = rx.unsubscribe();
        assert!(r == last, "C11: unsubscribe reports true exactly for the last handle of its stream");
    } else {
        drop(rx);
    }

    let lv1 = w.q.tail.vf_view();
    assert!(ledger::BAD_FREE == bad0, "C16: nothing freed twice");
    assert!(!w.q.manager.vf_has_token(tok) && w.q.manager.vf_ntokens() == nt0 - 1, "C17: a dropped receiver handle unregisters its token (a stale token blocks reclamation for good)");
    assert!(w.q.head.vf_peek() == a0.head && w.q.writers.peek() == a0.writers, "C11: removing a consumer touches neither the log nor the senders");
    if !last {
        assert!(lv1.k == a0.k && w.q.tail.vf_group_ptr() == g0, "C11: a non-last handle leaves the stream list alone");
        let r0: &Reader = match &w.rd[i] {
            Some(r) => r,
            None => unreachable!(),
        };
        assert!(r0.vf_consumers() == a0.ncons[i] - 1, "C11/C12: consumer count drops by exactly one");
        assert!(w.q.manager.vf_signal_bits() & 2 == sig0 & 2);
    } else {
        assert!(lv1.k == a0.k - 1, "C11: the stream leaves the published list");
        // every other stream keeps its order, position object and position
        let mut j = 0;
        let mut jj = 0;
        while j < a0.k {
            if j != i {
                assert!(lv1.pos_ptr[jj] == lv0.pos_ptr[j] && lv1.pos[jj] == a0.pos[j], "C11: remaining streams keep their values and their backpressure");
                jj += 1;
            }
            j += 1;
        }
        let mut j2 = 0;
        while j2 < lv1.k {
            assert!(lv1.pos_ptr[j2] != myposptr, "C11: the removed stream no longer limits senders");
            j2 += 1;
        }
        assert!(w.q.tail.vf_group_ptr() != g0, "C16: the list is replaced, never edited in place");
        assert!((w.q.manager.vf_signal_bits() & 2 != 0) == (a0.k == 1), "C13: the no-reader flag is raised exactly when the last stream is removed");
        if a0.k == 1 {
            assert!(w.q.tail.last_pos.get() == a0.pos[i], "C05: the position of the last stream is kept for teardown");
        }
        // retired objects go through the manager (old list + position object + token)
        assert!(w.q.manager.vf_waiting() + w.q.manager.vf_tofree() >= 1, "C16: unlinked objects are retired, not freed in place");
    }
    kani_cover!(last && a0.k == 1, "last stream removal reachable");
    kani_cover!(last && a0.k > 1, "one of several streams removed reachable");
    kani_cover!(!last, "non-last handle reachable");
    mem::forget(w);
}

// ---------------------------------------------------------------------------------------------
// S9: add_stream

/// Contract of InnerRecv::add_stream on stream i (sequential): the new stream is appended to
/// the published list at exactly the parent's current position with one consumer in sole-consumer
/// mode; every existing stream keeps its position object and position; log, cache, senders and
/// slots are untouched; the old list is retired through the manager; the new handle has its own
/// token.
pub unsafe fn s_add_stream<RW: QueueRW<Pay>>(n: usize, k: usize) {
    let w = World::<RW>::arbitrary(n, k, false, false);
    let a0 = w.a;
    let i: usize = rt::oracle_usize();
    rt::assume(i < a0.k);
    let rx = mk_recv(&w, i);
    let lv0 = w.q.tail.vf_view();
    let g0 = w.q.tail.vf_group_ptr();
    let nt0 = w.q.manager.vf_ntokens();
    let bad0 = ledger::BAD_FREE;

    let rx2 = rx.add_stream();

    let lv1 = w.q.tail.vf_view();
    let a1 = w.observe();
    assert!(lv1.k == a0.k + 1, "C10: exactly one stream is added");
    let mut j = 0;
    while j < a0.k {
        assert!(lv1.pos_ptr[j] == lv0.pos_ptr[j] && lv1.pos[j] == a0.pos[j], "C01/C03/C10: existing streams keep their position and backpressure");
        j += 1;
    }
    assert!(lv1.pos_ptr[a0.k] == rx2.reader.vf_pos_ptr() && lv1.pos[a0.k] == a0.pos[i], "C01/C02/C03/C10: the new stream starts at the parent's position (a stream registered elsewhere loses values and breaks the window test)");
    assert!(rx2.reader.vf_consumers() == 1 && rx2.reader.vf_is_single_state() && rx2.reader.vf_mask() == n - 1, "C10: the new stream has one consumer on the same ring");
    assert!(rx2.alive && w.q.manager.vf_has_token(rx2.token) && w.q.manager.vf_ntokens() == nt0 + 1, "C16: the new handle gets its own registered token");
    assert!(a1.head == a0.head && a1.writers == a0.writers && a1.tail_cache == a0.tail_cache && same_except_slot(&a0, &a1, usize::MAX), "C10: no side effects on the log, the cache, the senders or any slot");
    assert!(w.q.tail.vf_group_ptr() != g0 && ledger::BAD_FREE == bad0, "C16: the list is replaced and the old one retired, nothing freed twice");
    assert!(w.q.manager.vf_waiting() + w.q.manager.vf_tofree() >= 1, "C16: the old list is retired through the manager");
    mem::forget(rx);
    mem::forget(rx2);
    mem::forget(w);
}

// ---------------------------------------------------------------------------------------------
// S11: Drop for MultiQueue (teardown of the ring)

/// Teardown contract: when the queue object is destroyed (all handles gone, hence no stream left
/// and no sender), every payload still owned by the queue is destroyed exactly once and nothing
/// else is; the ring memory is handed back.
pub unsafe fn s_drop_queue<RW: QueueRW<Pay>>(n: usize, mpmc: bool) {
    let w = World::<RW>::arbitrary(n, 0, mpmc, false);
    let a0 = w.a;
    // the last stream left at `lp` (recorded by remove_reader); move-out values below it are gone
    let lp: usize = rt::oracle_usize();
    rt::assume(lp <= a0.head && a0.head - lp <= n);
    w.q.tail.last_pos.set(lp);
    w.q.writers.poke(0);
    let mut expect_live = 0;
    let mut s = 0;
    while s < n {
        if a0.tag[s] != INITIAL_QUEUE_FLAG {
            if mpmc {
                if a0.tag[s] >= lp {
                    pay::STATE[s] = 1;
                    expect_live += 1;
                } else {
                    pay::STATE[s] = 2;
                }
            } else {
                expect_live += 1;
            }
        }
        s += 1;
    }
    let drops0 = pay::DROPS;
    let World { q, rd, a: _ } = w;
    mem::forget(rd);
    let data_addr = q.data as usize;
    let refs_addr = q.refs as usize;
    let group_addr = q.tail.vf_group_ptr();
    assert!(ledger_has(data_addr) && ledger_has(refs_addr) && ledger_has(group_addr));
    let InPlaceArc { inner: queue, .. } = q;
    drop(queue);
    assert!(pay::DOUBLE_DROP == 0 && pay::DROP_OF_UNCREATED == 0, "C05: teardown destroys nothing twice and touches no garbage slot");
    assert!(pay::DROPS == drops0 + expect_live, "C05: teardown destroys exactly the payloads the queue still owns");
    let mut s2 = 0;
    while s2 < n {
        assert!(pay::STATE[s2] != 1, "C05: no queued payload survives the queue");
        s2 += 1;
    }
    assert!(!ledger_has(data_addr) && !ledger_has(refs_addr), "C17: the ring and the pin table are handed back when the queue is destroyed");
    assert!(!ledger_has(group_addr), "C17: the last published stream list is handed back when the queue is destroyed");
    assert!(ledger::BAD_FREE == 0, "C16: double free at teardown");
    kani_cover!(expect_live > 0, "non-empty teardown reachable");
    kani_cover!(expect_live == 0, "empty teardown reachable");
}
