// contracts and harnesses for src/multiqueue.rs (included as multiqueue2::multiqueue::verif_contracts)
//
// Layout:
//   world   : generator of an ARBITRARY well-formed quiescent queue state (wf), the abstraction
//             function alpha (ghost copy of the model state), and the wf re-check on real memory
//   s_*     : sequential operation contracts  {wf /\ alpha = m /\ pre} op {wf /\ alpha' = model_op(m)}
//   (further sections are appended below: i_* interference, t_* termination, futures, teardown)

use super::*;
// explicit imports: the contracts must not depend on which names the parent module happens to import
use std::cell::Cell;
use std::marker::PhantomData;
use std::mem;
use std::ptr;
use std::sync::atomic::Ordering::*;
use std::sync::mpsc::{RecvError, SendError, TryRecvError, TrySendError};
use std::sync::Arc;
use crate::verif_hooks::pay::{self, Pay};
use crate::verif_hooks::*;

#[cfg(kani)]
macro_rules! kani_cover {
    ($c:expr, $m:expr) => {
        kani::cover!($c, $m)
    };
}
#[cfg(not(kani))]
macro_rules! kani_cover {
    ($c:expr, $m:expr) => {
        let _ = $c;
    };
}


/// set by harnesses that need the allocation ledger (adds a 16-iteration table scan per allocation)
pub static mut WORLD_LEDGER: bool = false;

pub const NMAX: usize = 8;
pub const TWO63: usize = 1usize << 63;

/// A `Wait` for harnesses: never blocks; records how it was called (I5 / S8).
pub struct HWait {
    pub notify: bool,
}
pub static mut HW_WAIT_CALLS: usize = 0;
pub static mut HW_NOTIFY_CALLS: usize = 0;
/// event-clock value of the last notify (to order it after the state change it announces)
pub static mut HW_NOTIFY_STAMP: usize = 0;
pub static mut HW_LAST_SEQ: usize = 0;
pub static mut HW_LAST_AT: usize = 0;
pub static mut HW_LAST_WC: usize = 0;
impl Wait for HWait {
    fn wait(&self, seq: usize, at: &AtomicUsize, wc: &AtomicUsize) {
        unsafe {
            HW_WAIT_CALLS += 1;
            HW_LAST_SEQ = seq;
            HW_LAST_AT = at as *const AtomicUsize as usize;
            HW_LAST_WC = wc as *const AtomicUsize as usize;
        }
        unsafe {
            hw_check_args(seq, at as *const AtomicUsize as usize, wc as *const AtomicUsize as usize);
        }
        rt::before(K_CONDWAIT, at as *const AtomicUsize as usize);
    }
    fn notify(&self) {
        unsafe {
            HW_NOTIFY_CALLS += 1;
            rt::CLOCK += 1;
            HW_NOTIFY_STAMP = rt::CLOCK;
        }
    }
    fn needs_notify(&self) -> bool {
        self.notify
    }
}

/// Ghost copy of the abstract state alpha(queue) taken by the generator / by `observe`.
#[derive(Clone, Copy)]
pub struct Alpha {
    pub n: usize,
    pub head: usize,
    pub tail_cache: usize,
    pub writers: usize,
    pub k: usize,
    pub pos: [usize; MAXS],
    pub ncons: [usize; MAXS],
    pub tag: [usize; NMAX],
    pub val: [usize; NMAX],
    pub ser: [usize; NMAX],
    pub refcnt: [usize; NMAX],
}

impl Alpha {
    pub fn min_pos(&self) -> usize {
        let mut m = self.head;
        let mut i = 0;
        while i < self.k {
            if self.pos[i] < m {
                m = self.pos[i];
            }
            i += 1;
        }
        m
    }
    /// the model's full test: N values unconsumed by the slowest stream
    pub fn full(&self) -> bool {
        self.k > 0 && self.head - self.min_pos() == self.n
    }
    pub fn slot_of(&self, count: usize) -> usize {
        count & (self.n - 1)
    }
}

/// Same layout as std's `ArcInner<T>` (`#[repr(C)] { strong, weak, data }`), so that handles can hold an
/// `Arc` to a queue that lives in a typed local object: CBMC treats a Box/Arc heap allocation as one
/// byte array, which makes every later field access a byte-extract and defeats its constant propagation.
#[repr(C)]
pub struct InPlaceArc<T> {
    strong: std::sync::atomic::AtomicUsize,
    weak: std::sync::atomic::AtomicUsize,
    pub inner: T,
}

impl<T> InPlaceArc<T> {
    pub fn new(data: T) -> InPlaceArc<T> {
        InPlaceArc {
            strong: std::sync::atomic::AtomicUsize::new(1),
            weak: std::sync::atomic::AtomicUsize::new(1),
            inner: data,
        }
    }
    /// a new strong reference (the count never reaches zero while the harness holds the object)
    pub unsafe fn arc(&self) -> Arc<T> {
        self.strong.fetch_add(1, Ordering::Relaxed);
        Arc::from_raw(&self.inner as *const T)
    }
    pub fn strong(&self) -> usize {
        self.strong.load(Ordering::Relaxed)
    }
}

impl<T> std::ops::Deref for InPlaceArc<T> {
    type Target = T;
    fn deref(&self) -> &T {
        &self.inner
    }
}

pub struct World<RW: QueueRW<Pay>> {
    pub q: InPlaceArc<MultiQueue<RW, Pay>>,
    pub rd: [Option<Reader>; MAXS],
    pub a: Alpha,
}

/// is `c` a count whose slot currently carries it (published, inside the window)?
fn in_window(a: &Alpha, c: usize) -> bool {
    c < a.head && a.head - c <= a.n
}

impl<RW: QueueRW<Pay>> World<RW> {
    /// Arbitrary well-formed quiescent state of a queue with ring size `n` and `k` streams (both
    /// concrete per harness).  Everything else is symbolic: the 63-bit claim counter, every stream
    /// position, the (possibly stale) cached tail, consumer counts and handle modes, writer
    /// count, payload values, which slots were never written.
    /// Assumption A-wrap: head < 2^63 - 16 (no counter wraps during the call).
    /// Payload instance serials are concrete: slot s holds serial s (state 1 = live, 0 = garbage
    /// memory of a never-written slot, 2 = moved out by a consumer).
    pub unsafe fn arbitrary(n: usize, k: usize, mpmc: bool, notify: bool) -> World<RW> {
        Self::arbitrary_w(n, k, mpmc, Arc::new(HWait { notify }), notify)
    }

    /// same, with the given wait strategy installed
    pub unsafe fn arbitrary_w(n: usize, k: usize, mpmc: bool, waiter: Arc<dyn Wait>, notify: bool) -> World<RW> {
        assert!(n.is_power_of_two() && n <= NMAX && k <= MAXS && (!mpmc || k <= 1));
        // every allocation made through crate::alloc from here on is tracked (C16 / C17 clauses)
        if WORLD_LEDGER {
            ledger::ON = true;
            ledger::CAP_USED = 16;
        }
        let head: usize = rt::oracle_usize();
        rt::assume(head < TWO63 - 16);
        let mut pos = [0usize; MAXS];
        let mut ncons = [0usize; MAXS];
        let mut single = [false; MAXS];
        let mut i = 0;
        while i < k {
            pos[i] = rt::oracle_usize();
            rt::assume(pos[i] <= head && head - pos[i] <= n);
            ncons[i] = rt::oracle_usize();
            rt::assume(ncons[i] >= 1 && ncons[i] <= 3);
            single[i] = rt::oracle_bool();
            // a handle in Single mode implies it is the only consumer of its stream
            rt::assume(!single[i] || ncons[i] == 1);
            i += 1;
        }
        let mut a = Alpha {
            n,
            head,
            tail_cache: 0,
            writers: 0,
            k,
            pos,
            ncons,
            tag: [INITIAL_QUEUE_FLAG; NMAX],
            val: [0; NMAX],
            ser: [usize::MAX; NMAX],
            refcnt: [0; NMAX],
        };
        let min = a.min_pos();
        // cached tail: a minimum position of the past, never more than n behind the claim counter
        let tc: usize = rt::oracle_usize();
        rt::assume(tc <= min && head - tc <= n);
        a.tail_cache = tc;
        let writers: usize = rt::oracle_usize();
        rt::assume(writers <= 3);
        a.writers = writers;

        let data: *mut QueueEntry<Pay> = alloc::allocate(n);
        let refs: *mut RefCnt = alloc::allocate(n);
        let mut s = 0;
        while s < n {
            let cell = &mut *data.add(s);
            (*refs.add(s)).refcnt.poke(0);
            let v: usize = rt::oracle_usize();
            let p = Pay::new(v); // serial == s
            a.val[s] = v;
            a.ser[s] = p.ser;
            ptr::write(&mut cell.val, p);
            if s < head {
                // the unique count of the window [head-n, head) that maps to slot s
                let c: usize = rt::oracle_usize();
                rt::assume(c & (n - 1) == s && c < head && head - c <= n);
                a.tag[s] = c;
                cell.wraps.poke(c);
                // move-out flavour: values below the (single) stream position were moved out
                if mpmc && !(k == 1 && c >= pos[0]) {
                    pay::STATE[s] = 2;
                }
            } else {
                // fewer than n values were ever sent: slot never written
                cell.wraps.poke(INITIAL_QUEUE_FLAG);
                pay::STATE[s] = 0;
            }
            s += 1;
        }
        let (cursor, rd) = ReadCursor::vf_build(k, &pos, &ncons, &single, n as Index);
        let q = MultiQueue {
            d1: [0; 64],
            head: CountedIndex::from_usize(head, n as Index),
            tail_cache: AtomicUsize::new(tc),
            writers: AtomicUsize::new(writers),
            d2: [0; 64],
            tail: cursor,
            data,
            refs,
            capacity: n as isize,
            waiter,
            needs_notify: notify,
            mk: PhantomData,
            d3: [0; 64],
            manager: MemoryManager::new(),
            d4: [0; 64],
        };
        if k == 0 {
            q.manager.signal.set_reader(SeqCst);
        }
        // the manager's vectors get their capacity up front (harness-side): growing a Vec that already
        // has contents goes through realloc, whose byte-array copy CBMC's array theory does not digest
        q.manager.vf_reserve();
        World { q: InPlaceArc::new(q), rd, a }
    }

    /// alpha: read the abstract state back from the real memory (ghost reads)
    pub unsafe fn observe(&self) -> Alpha {
        let lv = self.q.tail.vf_view();
        let mut a = self.a;
        a.head = self.q.head.vf_peek();
        a.tail_cache = self.q.tail_cache.peek();
        a.writers = self.q.writers.peek();
        a.k = lv.k;
        a.pos = lv.pos;
        let mut i = 0;
        while i < self.a.k {
            if let Some(r) = &self.rd[i] {
                a.ncons[i] = r.vf_consumers();
            }
            i += 1;
        }
        let mut s = 0;
        while s < a.n {
            let cell = &*self.q.data.add(s);
            a.tag[s] = cell.wraps.peek();
            a.refcnt[s] = (*self.q.refs.add(s)).refcnt.peek();
            a.val[s] = cell.val.val;
            a.ser[s] = cell.val.ser;
            s += 1;
        }
        a
    }

    /// wf of an observed state (quiescent: no pins, every window count published)
    pub fn wf(a: &Alpha, mpmc: bool) -> bool {
        if !(a.head < TWO63) {
            return false;
        }
        let mut i = 0;
        while i < a.k {
            if !(a.pos[i] <= a.head && a.head - a.pos[i] <= a.n) {
                return false;
            }
            i += 1;
        }
        if !(a.tail_cache <= a.min_pos() && a.head - a.tail_cache <= a.n) {
            return false;
        }
        let mut s = 0;
        while s < a.n {
            if a.refcnt[s] != 0 {
                return false;
            }
            if s < a.head {
                let c = a.tag[s];
                if !(c & (a.n - 1) == s && c < a.head && a.head - c <= a.n) {
                    return false;
                }
                let live = !mpmc || (a.k == 1 && c >= a.pos[0]);
                if live && !(a.ser[s] < pay::MAXSER && unsafe { pay::STATE[a.ser[s]] } == 1) {
                    return false;
                }
            } else if a.tag[s] != INITIAL_QUEUE_FLAG {
                return false;
            }
            s += 1;
        }
        true
    }
}

fn same_except_slot(a: &Alpha, b: &Alpha, slot: usize) -> bool {
    let mut s = 0;
    while s < a.n {
        if s != slot && (a.tag[s] != b.tag[s] || a.val[s] != b.val[s] || a.ser[s] != b.ser[s]) {
            return false;
        }
        s += 1;
    }
    true
}

fn same_streams(a: &Alpha, b: &Alpha) -> bool {
    if a.k != b.k {
        return false;
    }
    let mut i = 0;
    while i < a.k {
        if a.pos[i] != b.pos[i] || a.ncons[i] != b.ncons[i] {
            return false;
        }
        i += 1;
    }
    true
}

// ---------------------------------------------------------------------------------------------
// S1 / S2: try_send_single, try_send_multi

#[derive(Clone, Copy, PartialEq)]
pub enum SendKind {
    Single,
    Multi,
}

/// Postcondition of a ring-level send (shared by S1, S2 and, through InnerSend, S7).
pub unsafe fn post_send<RW: QueueRW<Pay>>(
    a0: &Alpha,
    a1: &Alpha,
    r: Result<(), TrySendError<Pay>>,
    v: usize,
    pser: usize,
    drops0: usize,
    clones0: usize,
    mpmc: bool,
) {
    let full = a0.full();
    let slot = a0.slot_of(a0.head);
    let old_ser = a0.ser[slot];
    let old_was_live = a0.tag[slot] != INITIAL_QUEUE_FLAG && !mpmc;
    assert!(pay::DOUBLE_DROP == 0 && pay::DROP_OF_UNCREATED == 0, "C05: double drop / drop of garbage");
    assert!(pay::CLONES == clones0, "send never clones");
    match r {
        Err(TrySendError::Full(back)) => {
            assert!(full, "C03/C06: send refused although fewer than N values are outstanding");
            assert!(back.ser == pser && back.val == v && back.is_live(), "C01: refused value not handed back intact");
            assert!(pay::DROPS == drops0, "C05: refused send dropped something");
            assert!(a1.head == a0.head && a1.writers == a0.writers);
            assert!(same_except_slot(a0, a1, usize::MAX) && same_streams(a0, a1));
            assert!(a1.tail_cache == a0.tail_cache || a1.tail_cache == a0.min_pos(), "cache refresh must publish the true minimum");
            mem::forget(back);
        }
        Err(TrySendError::Disconnected(_)) => {
            assert!(false, "ring-level send never reports Disconnected");
        }
        Ok(()) => {
            assert!(!full, "C03: send accepted although N values are unconsumed by the slowest stream (overwrite)");
            assert!(a1.head == a0.head + 1, "C01/C02: exactly one log entry appended");
            assert!(a1.tag[slot] == a0.head && a1.val[slot] == v && a1.ser[slot] == pser, "C01: published slot must carry the sent value under its count");
            assert!(pay::STATE[pser] == 1, "C05: accepted value must stay live in the queue");
            assert!(same_except_slot(a0, a1, slot) && same_streams(a0, a1) && a1.writers == a0.writers);
            assert!(a1.tail_cache == a0.tail_cache || a1.tail_cache == a0.min_pos());
            if old_was_live {
                assert!(pay::DROPS == drops0 + 1 && pay::STATE[old_ser] == 2, "C05: overwritten broadcast value dropped exactly once");
            } else {
                assert!(pay::DROPS == drops0, "C05: nothing to drop on this send");
            }
        }
    }
    assert!(World::<RW>::wf(a1, mpmc), "C06: well-formedness re-established after send");
}

/// Contract of MultiQueue::try_send_{single,multi} from an arbitrary wf state, run alone.
///   pre : wf
///   post: full(m)  ==> Err(Full(v)) with the SAME payload instance, alpha unchanged (cache may be
///                      refreshed to the true minimum), nothing dropped, nothing cloned
///         !full(m) ==> Ok, log' = log ++ [v] (head+1, slot head&mask carries tag head and the SAME
///                      instance), every other slot / every stream position / writers unchanged,
///                      the overwritten broadcast value dropped exactly once, nothing else dropped
///   both: wf'
pub unsafe fn s_try_send<RW: QueueRW<Pay>>(n: usize, k: usize, mpmc: bool, kind: SendKind) {
    let w = World::<RW>::arbitrary(n, k, mpmc, false);
    let a0 = w.a;
    let v: usize = rt::oracle_usize();
    let p = Pay::new(v);
    let pser = p.ser;
    let drops0 = pay::DROPS;
    let clones0 = pay::CLONES;
    let full = a0.full();
    let slot = a0.slot_of(a0.head);
    let old_ser = a0.ser[slot];
    let old_was_live = a0.tag[slot] != INITIAL_QUEUE_FLAG && !mpmc;
    assert!(pser == n);

    let r = match kind {
        SendKind::Single => w.q.try_send_single(p),
        SendKind::Multi => w.q.try_send_multi(p),
    };

    let a1 = w.observe();
    post_send::<RW>(&a0, &a1, r, v, pser, drops0, clones0, mpmc);
    kani_cover!(full, "full state reachable");
    kani_cover!(!full && a0.tail_cache != a0.min_pos(), "stale cache reachable");
    kani_cover!(!full && a0.tag[slot] == INITIAL_QUEUE_FLAG, "never-written slot reachable");
    kani_cover!(!full && old_was_live, "overwrite of a consumed broadcast value reachable");
    mem::forget(w);
}

// ---------------------------------------------------------------------------------------------
// S3: try_recv

/// Contract of MultiQueue::try_recv(reader of stream i) from an arbitrary wf state, run alone.
///   cursor < head ==> Ok(v), v.val = payload[cursor]; broadcast: v is a fresh clone and the slot
///                     is untouched; move-out: v IS the slot's instance; cursor' = cursor+1;
///                     nothing else changes; no pin left behind
///   cursor = head ==> writers = 0 ? Err(null, Disconnected) : Err(&tag cell of slot cursor&mask, Empty);
///                     nothing changes
pub unsafe fn s_try_recv<RW: QueueRW<Pay>>(n: usize, k: usize, mpmc: bool) {
    let w = World::<RW>::arbitrary(n, k, mpmc, false);
    let a0 = w.a;
    rt::assume(a0.k >= 1);
    let i: usize = rt::oracle_usize();
    rt::assume(i < a0.k);
    let reader: &Reader = match &w.rd[i] {
        Some(r) => r,
        None => unreachable!(),
    };
    let drops0 = pay::DROPS;
    let clones0 = pay::CLONES;
    let cur = a0.pos[i];
    let slot = a0.slot_of(cur);

    let r = w.q.try_recv(reader);

    let a1 = w.observe();
    assert!(pay::DOUBLE_DROP == 0 && pay::DROP_OF_UNCREATED == 0);
    assert!(a1.head == a0.head && a1.writers == a0.writers && a1.tail_cache == a0.tail_cache);
    assert!(same_except_slot(&a0, &a1, usize::MAX), "receive never changes a slot's tag or value");
    match r {
        Ok(v) => {
            assert!(cur < a0.head, "C01: value delivered that was never sent");
            assert!(v.val == a0.val[slot], "C01/C02: delivered value is the one sent as count cursor");
            assert!(v.is_live(), "C04: delivered value must be live");
            if mpmc {
                assert!(v.ser == a0.ser[slot] && pay::CLONES == clones0, "move-out hands over the instance itself");
            } else {
                assert!(v.ser != a0.ser[slot] && pay::CLONES == clones0 + 1, "broadcast hands out exactly one clone");
                assert!(pay::STATE[a0.ser[slot]] == 1, "C05: the slot's value stays live for other streams");
            }
            assert!(pay::DROPS == drops0, "C05: nothing dropped by a successful receive");
            assert!(a1.pos[i] == cur + 1, "C01: cursor advances by exactly one");
            mem::forget(v);
        }
        Err((pt, TryRecvError::Empty)) => {
            assert!(cur == a0.head && a0.writers > 0, "C06/C07: Empty only when drained and a sender is alive");
            assert!(pt as usize == &(*w.q.data.add(slot)).wraps as *const AtomicUsize as usize, "I5: wait cell is the slot of the cursor");
            assert!(a1.pos[i] == cur && pay::DROPS == drops0 && pay::CLONES == clones0);
        }
        Err((pt, TryRecvError::Disconnected)) => {
            assert!(cur == a0.head && a0.writers == 0, "C07: end reported only when drained and no sender is alive");
            assert!(pt.is_null());
            assert!(a1.pos[i] == cur && pay::DROPS == drops0 && pay::CLONES == clones0);
        }
    }
    // frame: other streams untouched
    let mut j = 0;
    while j < a0.k {
        if j != i {
            assert!(a1.pos[j] == a0.pos[j]);
        }
        assert!(a1.ncons[j] == a0.ncons[j]);
        j += 1;
    }
    assert!(a1.k == a0.k);
    assert!(World::<RW>::wf(&a1, mpmc), "C06: well-formedness re-established after receive (in particular: no pin left)");
    kani_cover!(cur < a0.head, "non-empty reachable");
    kani_cover!(cur == a0.head && a0.writers == 0, "disconnected reachable");
    kani_cover!(cur == a0.head && a0.writers > 0, "empty reachable");
    kani_cover!(reader.vf_is_single_state(), "sole-consumer mode reachable");
    kani_cover!(!reader.vf_is_single_state() && a0.ncons[i] > 1, "shared mode reachable");
    mem::forget(w);
}

include!("mq_env.rs");
include!("mq_handles.rs");
include!("mq_iharness.rs");
#[cfg(kani)]
include!("mq_futures.rs");
#[cfg(not(kani))]
include!("mq_dispatch.rs");

#[cfg(kani)]
mod proofs_s {
    use super::*;

    macro_rules! send_harness {
        ($name:ident, $rw:ty, $n:expr, $k:expr, $mpmc:expr, $kind:expr) => {
            #[kani::proof]
            #[kani::unwind(6)]
            fn $name() {
                unsafe { s_try_send::<$rw>($n, $k, $mpmc, $kind) }
            }
        };
    }
    send_harness!(s1_send_single_bcast_n1, BCast<Pay>, 1, 2, false, SendKind::Single);
    send_harness!(s1_send_single_bcast_n2, BCast<Pay>, 2, 2, false, SendKind::Single);
    send_harness!(s1_send_single_bcast_n4, BCast<Pay>, 4, 3, false, SendKind::Single);
    send_harness!(s1_send_single_mpmc_n1, MPMC<Pay>, 1, 1, true, SendKind::Single);
    send_harness!(s1_send_single_mpmc_n2, MPMC<Pay>, 2, 1, true, SendKind::Single);
    send_harness!(s1_send_single_mpmc_n4, MPMC<Pay>, 4, 1, true, SendKind::Single);
    send_harness!(s2_send_multi_bcast_n1, BCast<Pay>, 1, 2, false, SendKind::Multi);
    send_harness!(s2_send_multi_bcast_n2, BCast<Pay>, 2, 2, false, SendKind::Multi);
    send_harness!(s2_send_multi_bcast_n4, BCast<Pay>, 4, 3, false, SendKind::Multi);
    send_harness!(s2_send_multi_mpmc_n1, MPMC<Pay>, 1, 1, true, SendKind::Multi);
    send_harness!(s2_send_multi_mpmc_n2, MPMC<Pay>, 2, 1, true, SendKind::Multi);
    send_harness!(s2_send_multi_mpmc_n4, MPMC<Pay>, 4, 1, true, SendKind::Multi);

    macro_rules! recv_harness {
        ($name:ident, $rw:ty, $n:expr, $k:expr, $mpmc:expr) => {
            #[kani::proof]
            #[kani::unwind(6)]
            fn $name() {
                unsafe { s_try_recv::<$rw>($n, $k, $mpmc) }
            }
        };
    }
    recv_harness!(s3_recv_bcast_n1, BCast<Pay>, 1, 2, false);
    recv_harness!(s3_recv_bcast_n2, BCast<Pay>, 2, 2, false);
    recv_harness!(s3_recv_bcast_n4, BCast<Pay>, 4, 3, false);
    recv_harness!(s3_recv_mpmc_n1, MPMC<Pay>, 1, 1, true);
    recv_harness!(s3_recv_mpmc_n2, MPMC<Pay>, 2, 1, true);
    recv_harness!(s3_recv_mpmc_n4, MPMC<Pay>, 4, 1, true);

    macro_rules! h3l {
        ($name:ident, $f:ident, $rw:ty, $($arg:expr),*) => {
            #[kani::proof]
            #[kani::unwind(18)]
            #[kani::stub(crate::memory::ToFree::delete, crate::memory::verif_contracts::vf_delete_stub)]
            fn $name() {
                unsafe {
                    WORLD_LEDGER = true;
                    $f::<$rw>($($arg),*)
                }
            }
        };
    }
    macro_rules! h3 {
        ($name:ident, $f:ident, $rw:ty, $($arg:expr),*) => {
            #[kani::proof]
            #[kani::unwind(6)]
            #[kani::stub(crate::memory::ToFree::delete, crate::memory::verif_contracts::vf_delete_stub)]
            fn $name() {
                unsafe { $f::<$rw>($($arg),*) }
            }
        };
    }
    // S1p/S2p pinned slot (broadcast)
    h3!(s1p_send_single_pinned_n2, s_try_send_pinned, BCast<Pay>, 2, 2, SendKind::Single);
    h3!(s2p_send_multi_pinned_n2, s_try_send_pinned, BCast<Pay>, 2, 2, SendKind::Multi);
    h3!(s1p_send_single_pinned_n4, s_try_send_pinned, BCast<Pay>, 4, 2, SendKind::Single);
    h3!(s2p_send_multi_pinned_n4, s_try_send_pinned, BCast<Pay>, 4, 2, SendKind::Multi);
    // S4 view (sole consumer)
    h3!(s4_view_bcast_n1, s_try_recv_view, BCast<Pay>, 1, 2, false);
    h3!(s4_view_bcast_n2, s_try_recv_view, BCast<Pay>, 2, 2, false);
    h3!(s4_view_bcast_n4, s_try_recv_view, BCast<Pay>, 4, 3, false);
    h3!(s4_view_mpmc_n1, s_try_recv_view, MPMC<Pay>, 1, 1, true);
    h3!(s4_view_mpmc_n2, s_try_recv_view, MPMC<Pay>, 2, 1, true);
    h3!(s4_view_mpmc_n4, s_try_recv_view, MPMC<Pay>, 4, 1, true);
    // S7 InnerSend::try_send (k = 0: no receiver left)
    h3!(s7_inner_send_bcast_n2_k0, s_inner_try_send, BCast<Pay>, 2, 0, false);
    h3!(s7_inner_send_mpmc_n2_k0, s_inner_try_send, MPMC<Pay>, 2, 0, true);
    h3!(s7_inner_send_bcast_n1_k1, s_inner_try_send, BCast<Pay>, 1, 1, false);
    h3!(s7_inner_send_bcast_n2_k2, s_inner_try_send, BCast<Pay>, 2, 2, false);
    h3!(s7_inner_send_bcast_n4_k2, s_inner_try_send, BCast<Pay>, 4, 2, false);
    h3!(s7_inner_send_mpmc_n1_k1, s_inner_try_send, MPMC<Pay>, 1, 1, true);
    h3!(s7_inner_send_mpmc_n2_k1, s_inner_try_send, MPMC<Pay>, 2, 1, true);
    h3!(s7_inner_send_mpmc_n4_k1, s_inner_try_send, MPMC<Pay>, 4, 1, true);
    // S8 InnerRecv entry points
    h3!(s8_try_recv_bcast_n2, s_inner_recv, BCast<Pay>, 2, 2, false, RecvKind::Try);
    h3!(s8_recv_bcast_n1, s_inner_recv, BCast<Pay>, 1, 1, false, RecvKind::Block);
    h3!(s8_recv_bcast_n2, s_inner_recv, BCast<Pay>, 2, 2, false, RecvKind::Block);
    h3!(s8_recv_bcast_n4, s_inner_recv, BCast<Pay>, 4, 2, false, RecvKind::Block);
    h3!(s8_try_view_bcast_n2, s_inner_recv, BCast<Pay>, 2, 2, false, RecvKind::TryView);
    h3!(s8_recv_view_bcast_n2, s_inner_recv, BCast<Pay>, 2, 2, false, RecvKind::BlockView);
    h3!(s8_try_recv_mpmc_n2, s_inner_recv, MPMC<Pay>, 2, 1, true, RecvKind::Try);
    h3!(s8_recv_mpmc_n1, s_inner_recv, MPMC<Pay>, 1, 1, true, RecvKind::Block);
    h3!(s8_recv_mpmc_n2, s_inner_recv, MPMC<Pay>, 2, 1, true, RecvKind::Block);
    h3!(s8_recv_mpmc_n4, s_inner_recv, MPMC<Pay>, 4, 1, true, RecvKind::Block);
    h3!(s8_try_view_mpmc_n2, s_inner_recv, MPMC<Pay>, 2, 1, true, RecvKind::TryView);
    h3!(s8_recv_view_mpmc_n2, s_inner_recv, MPMC<Pay>, 2, 1, true, RecvKind::BlockView);
    // S10 clone / drop
    h3!(s10_clone_send_bcast_n2, s_clone_send, BCast<Pay>, 2, 1, false);
    h3!(s10_clone_send_mpmc_n2, s_clone_send, MPMC<Pay>, 2, 1, true);
    h3!(s10_drop_send_bcast_n2, s_drop_send, BCast<Pay>, 2, 1, false);
    h3!(s10_drop_send_mpmc_n2, s_drop_send, MPMC<Pay>, 2, 1, true);
    h3!(s10_clone_recv_bcast_n2, s_clone_recv, BCast<Pay>, 2, 2, false);
    h3!(s10_clone_recv_mpmc_n2, s_clone_recv, MPMC<Pay>, 2, 1, true);
    h3l!(s10_drop_recv_bcast_n2_k1, s_drop_recv, BCast<Pay>, 2, 1, false, false);
    h3l!(s10_drop_recv_bcast_n2_k2, s_drop_recv, BCast<Pay>, 2, 2, false, false);
    h3l!(s10_drop_recv_bcast_n2_k3, s_drop_recv, BCast<Pay>, 2, 3, false, false);
    h3l!(s10_unsub_recv_bcast_n2_k2, s_drop_recv, BCast<Pay>, 2, 2, false, true);
    h3l!(s10_drop_recv_mpmc_n2, s_drop_recv, MPMC<Pay>, 2, 1, true, false);
    h3l!(s10_unsub_recv_mpmc_n2, s_drop_recv, MPMC<Pay>, 2, 1, true, true);
    // S9 add_stream
    h3l!(s9_add_stream_bcast_n2_k1, s_add_stream, BCast<Pay>, 2, 1);
    h3l!(s9_add_stream_bcast_n2_k2, s_add_stream, BCast<Pay>, 2, 2);
    h3l!(s9_add_stream_bcast_n4_k2, s_add_stream, BCast<Pay>, 4, 2);
    // S11 teardown of the ring
    h3l!(s11_drop_queue_bcast_n1, s_drop_queue, BCast<Pay>, 1, false);
    h3l!(s11_drop_queue_bcast_n2, s_drop_queue, BCast<Pay>, 2, false);
    h3l!(s11_drop_queue_bcast_n4, s_drop_queue, BCast<Pay>, 4, false);
    h3l!(s11_drop_queue_mpmc_n1, s_drop_queue, MPMC<Pay>, 1, true);
    h3l!(s11_drop_queue_mpmc_n2, s_drop_queue, MPMC<Pay>, 2, true);
    h3l!(s11_drop_queue_mpmc_n4, s_drop_queue, MPMC<Pay>, 4, true);

    macro_rules! hi {
        ($name:ident, $f:ident, $rw:ty, $($arg:expr),*) => {
            #[kani::proof]
            #[kani::unwind(4)]
            #[kani::stub(crate::memory::ToFree::delete, crate::memory::verif_contracts::vf_delete_stub)]
            fn $name() {
                unsafe { $f::<$rw>($($arg),*) }
            }
        };
    }
    macro_rules! hi3 {
        ($name:ident, $f:ident, $rw:ty, $($arg:expr),*) => {
            #[kani::proof]
            #[kani::unwind(3)]
            #[kani::stub(crate::memory::ToFree::delete, crate::memory::verif_contracts::vf_delete_stub)]
            fn $name() {
                unsafe { $f::<$rw>($($arg),*) }
            }
        };
    }
    // budget-1 variants (one environment move per call, at most one retry): the every-change tier
    hi3!(i1_send_multi_bcast_n2_b1, i_try_send, BCast<Pay>, 2, 1, false, SendKind::Multi, 1);
    hi3!(i1_send_multi_mpmc_n2_b1, i_try_send, MPMC<Pay>, 2, 1, true, SendKind::Multi, 1);
    hi3!(i2_recv_shared_bcast_n2_b1, i_try_recv, BCast<Pay>, 2, 1, false, 1, true);
    hi3!(i2_recv_shared_mpmc_n2_b1, i_try_recv, MPMC<Pay>, 2, 1, true, 1, true);
    hi3!(i2_recv_churn_bcast_n2_b1, i_try_recv_churn, BCast<Pay>, 2, 1, false, 1);
    hi3!(i5_recv_args_shared_mpmc_n2_b1, i_recv_wait_args, MPMC<Pay>, 2, 1, true, 1, true, false);
    // ---- layer I: real operations under the protocol environment
    hi!(i1_send_multi_bcast_n2_b2, i_try_send, BCast<Pay>, 2, 1, false, SendKind::Multi, 2);
    hi!(i1_send_multi_mpmc_n2_b2, i_try_send, MPMC<Pay>, 2, 1, true, SendKind::Multi, 2);
    hi!(i1_send_single_bcast_n2_b2, i_try_send, BCast<Pay>, 2, 1, false, SendKind::Single, 2);
    hi!(i1_send_single_mpmc_n2_b2, i_try_send, MPMC<Pay>, 2, 1, true, SendKind::Single, 2);
    hi!(i1_send_multi_bcast_n1_b2, i_try_send, BCast<Pay>, 1, 1, false, SendKind::Multi, 2);
    hi!(i2_recv_shared_bcast_n2_b2, i_try_recv, BCast<Pay>, 2, 1, false, 2, true);
    hi!(i2_recv_shared_mpmc_n2_b2, i_try_recv, MPMC<Pay>, 2, 1, true, 2, true);
    hi!(i2_recv_shared_mpmc_n2_b3, i_try_recv, MPMC<Pay>, 2, 1, true, 3, true);
    hi!(i2_recv_sole_bcast_n2_b2, i_try_recv, BCast<Pay>, 2, 1, false, 2, false);
    hi!(i2_recv_sole_mpmc_n2_b2, i_try_recv, MPMC<Pay>, 2, 1, true, 2, false);
    hi!(i2_recv_shared_bcast_n1_b2, i_try_recv, BCast<Pay>, 1, 1, false, 2, true);
    hi!(i7_view_bcast_n2_b2, i_try_recv_view, BCast<Pay>, 2, 1, false, 2);
    hi!(i7_view_mpmc_n2_b2, i_try_recv_view, MPMC<Pay>, 2, 1, true, 2);
    hi!(i7_view_bcast_n1_b3, i_try_recv_view, BCast<Pay>, 1, 2, false, 3);

    // ---- S12 futures layer
    macro_rules! hf {
        ($name:ident, $f:ident, $rw:ty, $($arg:expr),*) => {
            #[kani::proof]
            #[kani::unwind(4)]
            #[kani::stub(crate::memory::ToFree::delete, crate::memory::verif_contracts::vf_delete_stub)]
            #[kani::stub(std::thread::sleep, crate::multiqueue::verif_contracts::vf_sleep)]
            #[kani::stub(crate::multiqueue::FutWait::fut_wait, crate::multiqueue::verif_contracts::vf_fut_wait_stub)]
            #[kani::stub(crate::multiqueue::FutWait::send_or_park, crate::multiqueue::verif_contracts::vf_send_or_park_stub)]
            fn $name() {
                unsafe { $f::<$rw>($($arg),*) }
            }
        };
    }
    hf!(s12_start_send_bcast_n2_k0, s_fut_start_send, BCast<Pay>, 2, 0, false, 0, 0);
    hf!(s12_start_send_mpmc_n2_k0, s_fut_start_send, MPMC<Pay>, 2, 0, true, 1, 1);
    hf!(s12_start_send_bcast_n2_s00, s_fut_start_send, BCast<Pay>, 2, 2, false, 0, 0);
    hf!(s12_start_send_bcast_n2_s11, s_fut_start_send, BCast<Pay>, 2, 2, false, 1, 1);
    hf!(s12_start_send_mpmc_n2_s00, s_fut_start_send, MPMC<Pay>, 2, 1, true, 0, 0);
    hf!(s12_start_send_mpmc_n1_s21, s_fut_start_send, MPMC<Pay>, 1, 1, true, 2, 1);
    hf!(s12_poll_shared_bcast_n2_s00, s_fut_recv, BCast<Pay>, 2, 2, false, 0, 0, PollKind::Shared);
    hf!(s12_poll_shared_bcast_n2_s11, s_fut_recv, BCast<Pay>, 2, 2, false, 1, 1, PollKind::Shared);
    hf!(s12_poll_shared_mpmc_n2_s00, s_fut_recv, MPMC<Pay>, 2, 1, true, 0, 0, PollKind::Shared);
    hf!(s12_poll_shared_mpmc_n1_s11, s_fut_recv, MPMC<Pay>, 1, 1, true, 1, 1, PollKind::Shared);
    hf!(s12_poll_uni_bcast_n2_s00, s_fut_recv, BCast<Pay>, 2, 2, false, 0, 0, PollKind::Uni);
    hf!(s12_poll_uni_mpmc_n2_s11, s_fut_recv, MPMC<Pay>, 2, 1, true, 1, 1, PollKind::Uni);
    hf!(s12_direct_try_recv_bcast_n2, s_fut_recv, BCast<Pay>, 2, 2, false, 0, 0, PollKind::TryRecv);
    hf!(s12_direct_try_recv_mpmc_n2, s_fut_recv, MPMC<Pay>, 2, 1, true, 0, 0, PollKind::TryRecv);
    hf!(s12_direct_recv_bcast_n2, s_fut_recv, BCast<Pay>, 2, 2, false, 0, 0, PollKind::Recv);
    hf!(s12_direct_recv_mpmc_n2, s_fut_recv, MPMC<Pay>, 2, 1, true, 0, 0, PollKind::Recv);
    hf!(s12_direct_uni_try_bcast_n2, s_fut_recv, BCast<Pay>, 2, 2, false, 0, 0, PollKind::UniTry);
    hf!(s12_direct_uni_try_mpmc_n2, s_fut_recv, MPMC<Pay>, 2, 1, true, 0, 0, PollKind::UniTry);
    hf!(s12_direct_uni_recv_bcast_n2, s_fut_recv, BCast<Pay>, 2, 2, false, 0, 0, PollKind::UniRecv);
    hf!(s12_direct_uni_recv_mpmc_n2, s_fut_recv, MPMC<Pay>, 2, 1, true, 0, 0, PollKind::UniRecv);
    hf!(s12_recv_blocks_bcast_n2, s_fut_recv_blocks, BCast<Pay>, 2, 1, false, false);
    hf!(s12_recv_blocks_mpmc_n2, s_fut_recv_blocks, MPMC<Pay>, 2, 1, true, false);
    hf!(s12_recv_blocks_uni_bcast_n2, s_fut_recv_blocks, BCast<Pay>, 2, 1, false, true);
    hf!(s12_drop_recv_bcast_n2, s_fut_drop_recv, BCast<Pay>, 2, 2, false, false);
    hf!(s12_drop_recv_mpmc_n2, s_fut_drop_recv, MPMC<Pay>, 2, 1, true, false);
    hf!(s12_drop_unirecv_bcast_n2, s_fut_drop_recv, BCast<Pay>, 2, 2, false, true);
    hf!(s12_drop_send_bcast_n2, s_fut_drop_send, BCast<Pay>, 2, 1, false);
    hf!(s12_drop_send_mpmc_n2, s_fut_drop_send, MPMC<Pay>, 2, 1, true);

    hi!(i2_recv_churn_bcast_n2_b2, i_try_recv_churn, BCast<Pay>, 2, 1, false, 2);
    hi!(i2_recv_churn_mpmc_n2_b2, i_try_recv_churn, MPMC<Pay>, 2, 1, true, 2);
    hi!(i6_add_stream_sole_n1_b3, i_add_stream, BCast<Pay>, 1, 3, false);
    hi!(i6_add_stream_sole_n2_b2, i_add_stream, BCast<Pay>, 2, 2, false);
    hi!(i6_add_stream_shared_n1_b3, i_add_stream, BCast<Pay>, 1, 3, true);
    hi!(i6_add_stream_list_race_n2, i_add_stream_list_race, BCast<Pay>, 2);
    hi!(i3_send_single_addstream_n1_b2, i_try_send_addstream, BCast<Pay>, 1, SendKind::Single, 2);
    hi!(i3_send_single_addstream_n2_b2, i_try_send_addstream, BCast<Pay>, 2, SendKind::Single, 2);
    hi!(i4_recv_disconnect_mpmc_n2, i_recv_disconnect, MPMC<Pay>, 2, true);
    hi!(i13_drop_send_race_bcast_n2, i_drop_send_race, BCast<Pay>, 2, false);
    hi!(i13_drop_send_race_mpmc_n2, i_drop_send_race, MPMC<Pay>, 2, true);
    hi!(i12_remove_consumer_n2, i_consumer_count, BCast<Pay>, 2, true);
    hi!(i12_dup_consumer_n2, i_consumer_count, BCast<Pay>, 2, false);
    // ---- I5: wait arguments under interference
    hi!(i5_recv_args_shared_mpmc_n2_b2, i_recv_wait_args, MPMC<Pay>, 2, 1, true, 2, true, false);
    hi!(i5_recv_view_args_bcast_n2_b2, i_recv_wait_args, BCast<Pay>, 2, 1, false, 2, false, true);
    // ---- T: bounded own steps from frozen-others states
    h3!(t1_try_send_bcast_n2, t_try_op, BCast<Pay>, 2, 2, false, 0, 40);
    h3!(t1_try_send_mpmc_n2, t_try_op, MPMC<Pay>, 2, 1, true, 0, 40);
    h3!(t3_try_recv_bcast_n2, t_try_op, BCast<Pay>, 2, 2, false, 1, 40);
    h3!(t3_try_recv_mpmc_n2, t_try_op, MPMC<Pay>, 2, 1, true, 1, 40);
    h3!(t4_try_view_bcast_n2, t_try_op, BCast<Pay>, 2, 2, false, 2, 40);
    h3!(t4_try_view_mpmc_n2, t_try_op, MPMC<Pay>, 2, 1, true, 2, 40);

    hf!(s12_into_single_bcast_n2, s_fut_into_single, BCast<Pay>, 2, 2, false);
    hf!(s12_into_single_mpmc_n2, s_fut_into_single, MPMC<Pay>, 2, 1, true);
    hf!(s12_uni_into_multi_bcast_n2, s_fut_uni_convert, BCast<Pay>, 2, 2, true);
    hf!(s12_uni_add_stream_bcast_n2, s_fut_uni_convert, BCast<Pay>, 2, 2, false);
    // ---- S12w: FutWait alone
    macro_rules! hw {
        ($name:ident, $f:ident, $($arg:expr),*) => {
            #[kani::proof]
            #[kani::unwind(12)]
            #[kani::stub(std::thread::sleep, crate::multiqueue::verif_contracts::vf_sleep)]
            fn $name() {
                unsafe { $f($($arg),*) }
            }
        };
    }
    hw!(s12w_notify_0, s_futwait_notify, 0, false);
    hw!(s12w_notify_1, s_futwait_notify, 1, false);
    hw!(s12w_notify_2, s_futwait_notify, 2, false);
    hw!(s12w_notify_9, s_futwait_notify, 9, false);
    hw!(s12w_notify_all_0, s_futwait_notify, 0, true);
    hw!(s12w_notify_all_2, s_futwait_notify, 2, true);
    hw!(s12w_park_s00, s_futwait_park, 0, 0);
    hw!(s12w_park_s11, s_futwait_park, 1, 1);
    hw!(s12w_park_s21, s_futwait_park, 2, 1);
    hw!(s12w_send_or_park_s00, s_futwait_send_or_park, 0, 0);
    hw!(s12w_send_or_park_s11, s_futwait_send_or_park, 1, 1);
    hw!(s12w_send_or_park_s21, s_futwait_send_or_park, 2, 1);
}
