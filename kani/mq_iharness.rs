// Layer I harnesses: the real ring operations under the protocol environment.

/// try_send_{single,multi} with other senders / consumers acting between its shared accesses.
/// Guarantee side (checked at each write, see `guarantee`): the claim is a CAS (or a plain store
/// only when no other sender lives) from the observed count, taken while the window has room with
/// respect to the TRUE minimum at that instant and no validated pin protects the slot; the only
/// tag store is for the claimed slot and count; the cache is only moved to a value not ahead of
/// the slowest stream.  Linearisation postcondition: Ok <=> exactly one claim, published at return
/// with the sent instance; Err <=> no claim, the same instance handed back.
pub unsafe fn i_try_send<RW: QueueRW<Pay>>(n: usize, k: usize, mpmc: bool, kind: SendKind, budget: usize) {
    let w = World::<RW>::arbitrary(n, k, mpmc, false);
    let a0 = w.a;
    rt::assume(a0.writers >= 1);
    let mut en: u32 = (1 << A_CONSUME) | (1 << A_PIN);
    if kind == SendKind::Single {
        rt::assume(a0.writers == 1);
    } else {
        en |= (1 << A_PUBLISH) | (1 << A_CACHE);
    }
    env_reset(&w, mpmc, budget, en);
    G_ME_SENDER = true;
    let v: usize = rt::oracle_usize();
    let p = Pay::new(v);
    let pser = p.ser;
    G_MY_SEND_SER = pser;
    rt::ENV_MODE = ENV_PROTOCOL;
    let r = match kind {
        SendKind::Single => w.q.try_send_single(p),
        SendKind::Multi => w.q.try_send_multi(p),
    };
    rt::ENV_MODE = ENV_OFF;
    assert!(pay::DOUBLE_DROP == 0 && pay::DROP_OF_UNCREATED == 0, "C05: double drop / drop of garbage under interference");
    match r {
        Ok(()) => {
            assert!(G_MY_CLAIMS == 1 && G_MY_TAG_STORES == 1, "C01: an accepted send claims and publishes exactly one count");
            let slot = G_MY_CLAIM_COUNT & (n - 1);
            let mut s = 0;
            while s < n {
                if s == slot {
                    let cell = &*w.q.data.add(s);
                    assert!(cell.wraps.peek() == G_MY_CLAIM_COUNT && cell.val.ser == pser && cell.val.val == v, "C01/C02: at return the claimed slot carries the sent value under its count");
                }
                s += 1;
            }
            assert!(pay::STATE[pser] == 1, "C05: accepted value stays live in the queue");
        }
        Err(TrySendError::Full(back)) => {
            assert!(G_MY_CLAIMS == 0 && G_MY_TAG_STORES == 0, "C01: a refused send must not have claimed or published anything");
            assert!(back.ser == pser && back.val == v && back.is_live(), "C01: refused value handed back intact");
            mem::forget(back);
        }
        Err(TrySendError::Disconnected(_)) => assert!(false, "ring-level send never reports Disconnected"),
    }
    let mut s = 0;
    while s < n {
        assert!(G_MY_PIN[s] == 0, "a sender never pins");
        s += 1;
    }
    kani_cover!(G_MY_CLAIMS == 1 && ENV_TAKEN[0] > 0, "claim after a lost race reachable");
    mem::forget(w);
}

/// try_recv on stream i with siblings on the same stream, other streams' consumers and senders
/// acting between its shared accesses.
/// Guarantee side: the commit advances the cursor by one from the observed count, by CAS unless this
/// is the only consumer of the stream; pins are balanced.  Linearisation postcondition: a value is
/// returned iff exactly one commit succeeded, and it is the value published under the committed
/// count; a speculative read whose commit failed is neither returned nor destroyed; Disconnected
/// only when no sender is alive and the stream has consumed every accepted value; no pin left.
pub unsafe fn i_try_recv<RW: QueueRW<Pay>>(n: usize, k: usize, mpmc: bool, budget: usize, shared: bool) {
    i_try_recv_en::<RW>(n, k, mpmc, budget, shared, (1 << A_CONSUME) | (1 << A_PUBLISH) | (1 << A_SENDER))
}

/// same, with handle churn on my stream (sibling consumer handles cloned / dropped) and sibling receives
pub unsafe fn i_try_recv_churn<RW: QueueRW<Pay>>(n: usize, k: usize, mpmc: bool, budget: usize) {
    i_try_recv_en::<RW>(n, k, mpmc, budget, true, (1 << A_CONSUME) | (1 << A_CONSUMER))
}

pub unsafe fn i_try_recv_en<RW: QueueRW<Pay>>(n: usize, k: usize, mpmc: bool, budget: usize, shared: bool, en: u32) {
    let w = World::<RW>::arbitrary(n, k, mpmc, false);
    let a0 = w.a;
    let i: usize = rt::oracle_usize();
    rt::assume(i < a0.k);
    rt::assume(if shared { a0.ncons[i] >= 2 } else { a0.ncons[i] == 1 });
    let reader: &Reader = match &w.rd[i] {
        Some(r) => r,
        None => unreachable!(),
    };
    env_reset(&w, mpmc, budget, en);
    env_set_me_reader(i, reader);
    G_MY_SHARED = shared;
    rt::ENV_MODE = ENV_PROTOCOL;
    let r = w.q.try_recv(reader);
    rt::ENV_MODE = ENV_OFF;
    assert!(pay::DOUBLE_DROP == 0 && pay::DROP_OF_UNCREATED == 0, "C05: a speculative read whose commit failed must be forgotten, never destroyed");
    match r {
        Ok(v) => {
            assert!(G_MY_COMMITS == 1, "C01: a delivered value corresponds to exactly one successful commit");
            assert!(G_MY_COMMIT_PUBLISHED, "C01/C03: commit on a count whose value is not (or no longer) in its slot");
            assert!(v.val == G_MY_COMMIT_VAL, "C01/C02/C04: the delivered value is the one published under the committed count");
            assert!(v.is_live(), "C04: delivered value must be live");
            mem::forget(v);
        }
        Err((_pt, TryRecvError::Empty)) => {
            assert!(G_MY_COMMITS == 0, "C01: Empty after a successful commit loses a value");
        }
        Err((_pt, TryRecvError::Disconnected)) => {
            assert!(G_MY_COMMITS == 0, "C01: Disconnected after a successful commit loses a value");
            assert!(w.q.writers.peek() == 0, "C07: the end is reported while a sender is alive");
            assert!(reader.vf_pos() == w.q.head.vf_peek() && !any_pending(n), "C07: the end is reported while an accepted value is still undelivered to this stream");
        }
    }
    let mut s = 0;
    while s < n {
        assert!(G_MY_PIN[s] == 0, "C06: a pin is left behind (the slot can never be written again)");
        s += 1;
    }
    kani_cover!(ENV_TAKEN[1] > 0 && r_is_ok_flag(), "sibling consumed and a value was still delivered");
    mem::forget(w);
}

pub static mut LAST_OK: bool = false;
fn r_is_ok_flag() -> bool {
    unsafe { G_MY_COMMITS == 1 }
}

/// try_recv_view (sole consumer) under senders wrapping the ring and other streams' consumers.
pub unsafe fn i_try_recv_view<RW: QueueRW<Pay>>(n: usize, k: usize, mpmc: bool, budget: usize) {
    let w = World::<RW>::arbitrary(n, k, mpmc, false);
    let a0 = w.a;
    let i: usize = rt::oracle_usize();
    rt::assume(i < a0.k && a0.ncons[i] == 1);
    let reader: &Reader = match &w.rd[i] {
        Some(r) => r,
        None => unreachable!(),
    };
    let en: u32 = (1 << A_CONSUME) | (1 << A_PUBLISH) | (1 << A_SENDER);
    env_reset(&w, mpmc, budget, en);
    env_set_me_reader(i, reader);
    G_MY_VIEW = true;
    // the last sender's final send and its drop can both land between two adjacent loads of the consumer
    ENV_PER_POINT = 2;
    VIEW_CALLS = 0;
    rt::ENV_MODE = ENV_PROTOCOL;
    let r = w.q.try_recv_view(view_fn, reader);
    rt::ENV_MODE = ENV_OFF;
    assert!(pay::DOUBLE_DROP == 0 && pay::DROP_OF_UNCREATED == 0, "C05: double drop / drop of garbage under interference");
    match r {
        Ok(x) => {
            assert!(G_MY_COMMITS == 1 && VIEW_CALLS == 1, "C01: one commit and one closure call per delivered value");
            assert!(G_MY_COMMIT_PUBLISHED && x == G_MY_COMMIT_VAL && VIEW_LIVE, "C01/C04: the closure saw the live value published under the committed count");
        }
        Err((_f, _pt, TryRecvError::Empty)) => assert!(G_MY_COMMITS == 0 && VIEW_CALLS == 0),
        Err((_f, _pt, TryRecvError::Disconnected)) => {
            assert!(G_MY_COMMITS == 0 && VIEW_CALLS == 0);
            assert!(w.q.writers.peek() == 0, "C07: the end is reported while a sender is alive");
            assert!(reader.vf_pos() == w.q.head.vf_peek() && !any_pending(n), "C07: the end is reported while an accepted value is still undelivered to this stream");
        }
    }
    mem::forget(w);
}

// ---------------------------------------------------------------------------------------------
// I5: the arguments of Wait::wait under interference (C08)

pub static mut HW_ARGS_OK: bool = true;
pub static mut HW_ARGS_CHECKED: usize = 0;

/// called by HWait::wait: is `at` the tag cell of the slot where count `seq` will be published, and
/// `wc` this queue's writer counter?  (Evaluated at the call instant: later the state has moved on.)
pub unsafe fn hw_check_args(seq: usize, at: usize, wc: usize) {
    if ENV_Q == 0 {
        return;
    }
    // MultiQueue<RW, T> is #[repr(C)] and RW only appears in PhantomData: both flavours share the layout
    let q = &*(ENV_Q as *const MultiQueue<BCast<Pay>, Pay>);
    let n = q.capacity as usize;
    let cell = &(*q.data.add(seq & (n - 1))).wraps as *const AtomicUsize as usize;
    HW_ARGS_CHECKED += 1;
    if HW_STOP_AFTER_WAIT {
        assert!(at == cell && wc == &q.writers as *const AtomicUsize as usize, "C08: the wait strategy is entered with a cell that is not the slot of the awaited count (stale slot paired with a fresh count)");
        // the obligation is about the call itself: nothing after it is explored
        rt::assume(false);
    }
    if at != cell || wc != &q.writers as *const AtomicUsize as usize {
        HW_ARGS_OK = false;
    }
}

pub static mut HW_STOP_AFTER_WAIT: bool = false;

/// InnerRecv::recv / recv_view on stream i under the protocol environment (siblings consuming on the
/// same stream, senders publishing and leaving).  Obligation (C08): whenever the wait strategy is
/// entered, it is entered with a triple (seq, cell, writer count) such that `cell` is the tag cell of
/// the slot where `seq` will be published -- otherwise the sleeper's wake-up test watches the wrong
/// slot and a value that only it can take may sit in the queue while it sleeps.
pub unsafe fn i_recv_wait_args<RW: QueueRW<Pay>>(n: usize, k: usize, mpmc: bool, budget: usize, shared: bool, view: bool) {
    let w = World::<RW>::arbitrary(n, k, mpmc, false);
    let a0 = w.a;
    let i: usize = rt::oracle_usize();
    rt::assume(i < a0.k);
    rt::assume(if shared { a0.ncons[i] >= 2 } else { a0.ncons[i] == 1 });
    let rx = mk_recv(&w, i);
    let en: u32 = (1 << A_CONSUME) | (1 << A_PUBLISH) | (1 << A_SENDER);
    env_reset(&w, mpmc, budget, en);
    env_set_me_reader(i, &rx.reader);
    HW_ARGS_OK = true;
    HW_ARGS_CHECKED = 0;
    HW_WAIT_CALLS = 0;
    HW_STOP_AFTER_WAIT = true;
    rt::ENV_MODE = ENV_PROTOCOL;
    if view {
        match rx.recv_view(view_fn) {
            Ok(_) => {}
            Err(_) => {}
        }
    } else {
        match rx.recv() {
            Ok(p) => mem::forget(p),
            Err(_) => {}
        }
    }
    rt::ENV_MODE = ENV_OFF;
    HW_STOP_AFTER_WAIT = false;
    mem::forget(rx);
    mem::forget(w);
}

// ---------------------------------------------------------------------------------------------
// T: try operations finish within a fixed number of their own steps, whatever state the others left

/// From a state in which other threads are frozen anywhere inside their operations (pending claims:
/// any tags; pins: any pin counts; any stale cache; positions anywhere in the window) one try
/// operation run ALONE (nobody else moves) returns after a bounded number of its own shared-memory
/// operations, without taking a lock, waiting on a condition variable, yielding or sleeping.
pub unsafe fn t_try_op<RW: QueueRW<Pay>>(n: usize, k: usize, mpmc: bool, op: u8, bound: usize) {
    let w = World::<RW>::arbitrary(n, k, mpmc, false);
    let a0 = w.a;
    // freeze the others mid-operation: arbitrary pins, arbitrary (older or equal) tags, stale cache
    let mut s = 0;
    while s < n {
        let pins: usize = rt::oracle_usize();
        rt::assume(pins <= 2);
        (*w.q.refs.add(s)).refcnt.poke(pins);
        let unpublished = rt::oracle_bool();
        if unpublished && a0.tag[s] != INITIAL_QUEUE_FLAG && a0.tag[s] >= n {
            // a claimed but not yet published slot still shows the previous lap
            (*w.q.data.add(s)).wraps.poke(a0.tag[s] - n);
        }
        s += 1;
    }
    let i: usize = rt::oracle_usize();
    rt::assume(a0.k == 0 || i < a0.k);
    rt::assume(a0.writers >= 1);
    let uni = rt::oracle_bool();
    rt::assume(!uni || a0.writers == 1);
    let tx = mk_send(&w, uni);
    rt::LOCKS_TAKEN = 0;
    rt::CONDVAR_WAITS = 0;
    rt::YIELDS = 0;
    rt::SLEEPS = 0;
    HW_WAIT_CALLS = 0;
    rt::ACCESSES = 0;
    match op {
        0 => match tx.try_send(Pay::new(1)) {
            Ok(()) => {}
            Err(TrySendError::Full(b)) => mem::forget(b),
            Err(TrySendError::Disconnected(b)) => mem::forget(b),
        },
        1 => {
            rt::assume(a0.k > 0);
            let rx = mk_recv(&w, i);
            rt::LOCKS_TAKEN = 0;
            rt::ACCESSES = 0;
            match rx.try_recv() {
                Ok(p) => mem::forget(p),
                Err(_) => {}
            }
            mem::forget(rx);
        }
        _ => {
            rt::assume(a0.k > 0 && a0.ncons[i] == 1);
            let rx = mk_recv(&w, i);
            rt::LOCKS_TAKEN = 0;
            rt::ACCESSES = 0;
            match rx.try_recv_view(view_fn) {
                Ok(_) => {}
                Err(_) => {}
            }
            mem::forget(rx);
        }
    }
    assert!(rt::ACCESSES <= bound, "C18: a try operation performed more shared-memory steps than its fixed bound");
    assert!(rt::LOCKS_TAKEN == 0 && rt::CONDVAR_WAITS == 0 && rt::YIELDS == 0 && rt::SLEEPS == 0 && HW_WAIT_CALLS == 0, "C18: a try operation reached a blocking primitive (lock, condition variable, yield, sleep or the wait strategy)");
    mem::forget(tx);
    mem::forget(w);
}

// ---------------------------------------------------------------------------------------------
// I12: the consumer count of a stream is moved by single atomic read-modify-writes (C11, C12)

/// Reader::remove_consumer / dup_consumer while a sibling handle of the same stream is dropped at any
/// point in between: the count changes by exactly one in ONE atomic read-modify-write, and what
/// remove_consumer reports is the value that very operation replaced -- so that exactly one of two
/// handles released at the same moment learns it was the last one and retires the stream.
pub unsafe fn i_consumer_count<RW: QueueRW<Pay>>(n: usize, remove: bool) {
    let w = World::<RW>::arbitrary(n, 1, false, false);
    let a0 = w.a;
    let reader: &Reader = match &w.rd[0] {
        Some(r) => r,
        None => unreachable!(),
    };
    env_reset(&w, false, 1, 0);
    env_set_me_reader(0, reader);
    CC_WRITES = 0;
    rt::ENV_MODE = 103;
    let mut ret = 0;
    if remove {
        ret = reader.remove_consumer();
    } else {
        rt::assume(a0.ncons[0] < 3);
        reader.dup_consumer();
    }
    rt::ENV_MODE = ENV_OFF;
    assert!(CC_WRITES == 1 && CC_KIND == K_RMW, "C11/C12: the consumer count must be moved by exactly one atomic read-modify-write");
    if remove {
        assert!(CC_NEW + 1 == CC_OLD, "C11: remove_consumer lowers the count by exactly one");
        assert!(ret == CC_OLD, "C11: remove_consumer must report the value its own decrement replaced (otherwise two handles released together can both, or neither, take the last-handle path)");
    } else {
        assert!(CC_NEW == CC_OLD + 1, "C12: dup_consumer raises the count by exactly one");
        assert!(!reader.vf_is_single_state(), "C12: the cloned-from handle leaves sole-consumer mode");
    }
    kani_cover!(ENV_TAKEN[2] > 0, "sibling dropped in between");
    mem::forget(w);
}

// ---------------------------------------------------------------------------------------------
// I13: two senders leaving at the same moment (C07, C08)

/// Drop for InnerSend while ANOTHER sender handle is dropped at any point in between: if the queue is
/// left without senders, this drop (it is then the last one) must have notified the waiter -- otherwise
/// a receiver parked on the wait strategy never learns that the stream has ended.
pub unsafe fn i_drop_send_race<RW: QueueRW<Pay>>(n: usize, mpmc: bool) {
    let w = World::<RW>::arbitrary(n, 1, mpmc, true);
    let a0 = w.a;
    rt::assume(a0.writers >= 1);
    let tx = mk_send(&w, false);
    env_reset(&w, mpmc, 1, 0);
    WR_CELL = &w.q.writers as *const AtomicUsize as usize;
    HW_NOTIFY_CALLS = 0;
    rt::ENV_MODE = 104;
    drop(tx);
    rt::ENV_MODE = ENV_OFF;
    let left = w.q.writers.peek();
    assert!(left + 1 + ENV_TAKEN[2] == a0.writers, "C07: each sender handle that goes lowers the count by exactly one");
    assert!(left > 0 || HW_NOTIFY_CALLS >= 1, "C07/C08: when the last senders leave together, the one that brings the count to zero must notify the waiter");
    kani_cover!(ENV_TAKEN[2] > 0 && left == 0, "both senders left");
    mem::forget(w);
}

// ---------------------------------------------------------------------------------------------
// I6: add_stream under interference (C10)

/// InnerRecv::add_stream on stream i while producers publish and (if the parent stream is shared)
/// siblings of the parent consume between its shared accesses.  Obligation, checked at the instant the
/// new stream list becomes visible: the new stream's position lies inside the window [head - N, head];
/// and afterwards: it is a position the parent held during the call.
pub unsafe fn i_add_stream<RW: QueueRW<Pay>>(n: usize, budget: usize, shared: bool) {
    let w = World::<RW>::arbitrary(n, 1, false, false);
    let a0 = w.a;
    rt::assume(if shared { a0.ncons[0] >= 2 } else { a0.ncons[0] == 1 });
    let rx = mk_recv(&w, 0);
    let en: u32 = (1 << A_CONSUME) | (1 << A_PUBLISH);
    env_reset(&w, false, budget, en);
    env_set_me_reader(0, &rx.reader);
    // add_stream has a single observation point between reading the parent's position and publishing the
    // list: the whole budget may be spent there
    ENV_PER_POINT = budget;
    G_ADDING_STREAM = true;
    let p0 = a0.pos[0];
    rt::ENV_MODE = ENV_PROTOCOL;
    let rx2 = rx.add_stream();
    rt::ENV_MODE = ENV_OFF;
    G_ADDING_STREAM = false;
    let p1 = rx.reader.vf_pos();
    let np = rx2.reader.vf_pos();
    assert!(np >= p0 && np <= p1, "C10: the new stream starts at a position its parent held during the call");
    if !shared {
        assert!(np == p1, "C10: with no other consumer of the parent running, the new stream starts at the parent's current position");
    }
    kani_cover!(ENV_TAKEN[0] > 0, "producer published during add_stream");
    mem::forget(rx);
    mem::forget(rx2);
    mem::forget(w);
}

// ---------------------------------------------------------------------------------------------
// I6b / I3b: another consumer adds a stream while I publish a list / scan the list

/// add_stream on stream 0 while ANOTHER handle completes an add_stream between my load of the published
/// list and my compare-exchange: my retry must build on the list that is published then -- the other
/// stream must still be in the list I publish (otherwise its subscriber silently loses back-pressure and
/// values, and its position object is retired while still reachable).
pub unsafe fn i_add_stream_list_race<RW: QueueRW<Pay>>(n: usize) {
    let w = World::<RW>::arbitrary(n, 1, false, false);
    let a0 = w.a;
    let rx = mk_recv(&w, 0);
    env_reset(&w, false, 1, 1 << A_ADDSTREAM);
    env_set_me_reader(0, &rx.reader);
    ENV_PER_POINT = 1;
    rt::ENV_MODE = ENV_PROTOCOL;
    let rx2 = rx.add_stream();
    rt::ENV_MODE = ENV_OFF;
    let others = if G_EXTRA_POS_CELL != 0 { 1 } else { 0 };
    assert!(w.q.tail.vf_list_len() == a0.k + 1 + others, "C01/C03/C10/C16: the published list must contain every stream: the original ones, the one added concurrently (its subscriber would lose back-pressure and values), and mine");
    assert!(w.q.tail.vf_list_has_cell(rx2.reader.vf_pos_cell_addr()), "C10: my new stream is in the published list");
    assert!(w.q.tail.vf_list_has_cell(rx.reader.vf_pos_cell_addr()), "C10/C11: the parent stream is still in the published list");
    if G_EXTRA_POS_CELL != 0 {
        assert!(w.q.tail.vf_list_has_cell(G_EXTRA_POS_CELL), "C10/C03/C16: a stream added concurrently by another consumer was dropped from the list by add_stream's retry (its subscriber loses back-pressure and values)");
    }
    kani_cover!(G_EXTRA_POS_CELL != 0, "concurrent add_stream taken");
    mem::forget(rx);
    mem::forget(rx2);
    mem::forget(w);
}

/// try_send_{single,multi} while ANOTHER consumer adds a stream (and consumers advance): at the instant
/// of my claim the window must have room with respect to EVERY stream of the list published then,
/// including the one added while I was scanning the old list (guarantee clause C03 in `guarantee`).
pub unsafe fn i_try_send_addstream<RW: QueueRW<Pay>>(n: usize, kind: SendKind, budget: usize) {
    let w = World::<RW>::arbitrary(n, 1, false, false);
    let a0 = w.a;
    rt::assume(a0.writers >= 1);
    if kind == SendKind::Single {
        rt::assume(a0.writers == 1);
    }
    env_reset(&w, false, budget, (1 << A_ADDSTREAM) | (1 << A_CONSUME));
    // the new list can be published AND its parent can advance between two adjacent loads of the scan
    ENV_PER_POINT = 2;
    G_ME_SENDER = true;
    let v: usize = rt::oracle_usize();
    let p = Pay::new(v);
    let pser = p.ser;
    G_MY_SEND_SER = pser;
    rt::ENV_MODE = ENV_PROTOCOL;
    let r = match kind {
        SendKind::Single => w.q.try_send_single(p),
        SendKind::Multi => w.q.try_send_multi(p),
    };
    rt::ENV_MODE = ENV_OFF;
    match r {
        Ok(()) => assert!(G_MY_CLAIMS == 1 && G_MY_TAG_STORES == 1, "C01: an accepted send claims and publishes exactly one count"),
        Err(TrySendError::Full(back)) => {
            assert!(G_MY_CLAIMS == 0 && back.ser == pser, "C01: a refused send must not have claimed anything");
            mem::forget(back);
        }
        Err(TrySendError::Disconnected(_)) => assert!(false, "ring-level send never reports Disconnected"),
    }
    kani_cover!(G_EXTRA_POS_CELL != 0 && G_MY_CLAIMS == 0, "refused after a concurrent add_stream");
    mem::forget(w);
}

// ---------------------------------------------------------------------------------------------
// I4: the two-look end-of-stream test of try_recv (C07)

/// try_recv on a SOLE-consumer stream while the last sender's final send and its drop land between any
/// two adjacent shared accesses of the consumer (two environment moves at one observation point):
/// Disconnected may only be reported if no sender is alive AND the stream has consumed every accepted
/// value -- which is what the second look at the tag after reading the sender count is for.
pub unsafe fn i_recv_disconnect<RW: QueueRW<Pay>>(n: usize, mpmc: bool) {
    let w = World::<RW>::arbitrary(n, 1, mpmc, false);
    let a0 = w.a;
    rt::assume(a0.ncons[0] == 1);
    let reader: &Reader = match &w.rd[0] {
        Some(r) => r,
        None => unreachable!(),
    };
    env_reset(&w, mpmc, 2, (1 << A_PUBLISH) | (1 << A_SENDER));
    env_set_me_reader(0, reader);
    ENV_PER_POINT = 2;
    rt::ENV_MODE = ENV_PROTOCOL;
    let r = w.q.try_recv(reader);
    rt::ENV_MODE = ENV_OFF;
    match r {
        Ok(v) => {
            assert!(G_MY_COMMITS == 1 && G_MY_COMMIT_PUBLISHED && v.val == G_MY_COMMIT_VAL, "C01: the delivered value is the one published under the committed count");
            mem::forget(v);
        }
        Err((_pt, TryRecvError::Empty)) => assert!(G_MY_COMMITS == 0),
        Err((_pt, TryRecvError::Disconnected)) => {
            assert!(w.q.writers.peek() == 0, "C07: the end is reported while a sender is alive");
            assert!(reader.vf_pos() == w.q.head.vf_peek(), "C07: the end is reported while an accepted value is still undelivered to this stream (the sender's last send and its drop fell between the two looks)");
        }
    }
    kani_cover!(ENV_TAKEN[0] > 0 && ENV_TAKEN[2] > 0, "send and sender drop both taken");
    mem::forget(w);
}
