// Layer I harnesses: the real ring operations under the protocol environment.

/// try_send_{single,multi} with other senders / consumers acting between its shared accesses.
/// Guarantee side (checked at each write, see `guarantee`): the claim is a CAS (or a plain store
/// only when no other sender lives) from the observed count, taken while the window has room with
/// respect to the TRUE minimum at that instant and no validated pin protects the slot; the only
/// tag store is for the claimed slot and count; the cache is only moved to a value not ahead of
/// the slowest stream.  Linearisation postcondition: Ok <=> exactly one claim, published at return
/// with the sent instance; Err <=> no claim, the same instance handed back.
pub unsafe fn i_try_send<RW: QueueRW<Pay>>(n: usize, k: usize, mpmc: bool, kind: SendKind, budget: usize) {
    let w = World::<RW>::arbitrary(n, k, mpmc, false);
    let a0 = w.a;
    rt::assume(a0.writers >= 1);
    let mut en: u32 = (1 << A_CONSUME) | (1 << A_PIN);
    if kind == SendKind::Single {
        rt::assume(a0.writers == 1);
    } else {
        en |= (1 << A_CLAIM) | (1 << A_PUBLISH) | (1 << A_SENDER) | (1 << A_CACHE);
    }
    env_reset(&w, mpmc, budget, en);
    G_ME_SENDER = true;
    let v: usize = rt::oracle_usize();
    let p = Pay::new(v);
    let pser = p.ser;
    rt::ENV_MODE = ENV_PROTOCOL;
    let r = match kind {
        SendKind::Single => w.q.try_send_single(p),
        SendKind::Multi => w.q.try_send_multi(p),
    };
    rt::ENV_MODE = ENV_OFF;
    assert!(pay::DOUBLE_DROP == 0 && pay::DROP_OF_UNCREATED == 0, "C05: double drop / drop of garbage under interference");
    match r {
        Ok(()) => {
            assert!(G_MY_CLAIMS == 1 && G_MY_TAG_STORES == 1, "C01: an accepted send claims and publishes exactly one count");
            let s = G_MY_CLAIM_COUNT & (n - 1);
            let cell = &*w.q.data.add(s);
            assert!(cell.wraps.peek() == G_MY_CLAIM_COUNT && cell.val.ser == pser && cell.val.val == v, "C01/C02: at return the claimed slot carries the sent value under its count");
            assert!(pay::STATE[pser] == 1, "C05: accepted value stays live in the queue");
        }
        Err(TrySendError::Full(back)) => {
            assert!(G_MY_CLAIMS == 0 && G_MY_TAG_STORES == 0, "C01: a refused send must not have claimed or published anything");
            assert!(back.ser == pser && back.val == v && back.is_live(), "C01: refused value handed back intact");
            mem::forget(back);
        }
        Err(TrySendError::Disconnected(_)) => assert!(false, "ring-level send never reports Disconnected"),
    }
    let mut s = 0;
    while s < n {
        assert!(G_MY_PIN[s] == 0, "a sender never pins");
        s += 1;
    }
    kani_cover!(ENV_TAKEN[A_CLAIM as usize] > 0, "env claim taken");
    kani_cover!(ENV_TAKEN[A_CONSUME as usize] > 0, "env consume taken");
    kani_cover!(G_MY_CLAIMS == 1 && ENV_TAKEN[A_CLAIM as usize] > 0, "claim after a lost race reachable");
    mem::forget(w);
}

/// try_recv on stream i with siblings on the same stream, other streams' consumers and senders
/// acting between its shared accesses.
/// Guarantee side: the commit advances the cursor by one from the observed count, by CAS unless this
/// is the only consumer of the stream; pins are balanced.  Linearisation postcondition: a value is
/// returned iff exactly one commit succeeded, and it is the value published under the committed
/// count; a speculative read whose commit failed is neither returned nor destroyed; Disconnected
/// only when no sender is alive and the stream has consumed every accepted value; no pin left.
pub unsafe fn i_try_recv<RW: QueueRW<Pay>>(n: usize, k: usize, mpmc: bool, budget: usize, shared: bool) {
    let w = World::<RW>::arbitrary(n, k, mpmc, false);
    let a0 = w.a;
    let i: usize = rt::oracle_usize();
    rt::assume(i < a0.k);
    rt::assume(if shared { a0.ncons[i] >= 2 } else { a0.ncons[i] == 1 });
    let reader: &Reader = match &w.rd[i] {
        Some(r) => r,
        None => unreachable!(),
    };
    let en: u32 = (1 << A_CONSUME) | (1 << A_PIN) | (1 << A_CLAIM) | (1 << A_PUBLISH) | (1 << A_SENDER) | (1 << A_CONSUMER);
    env_reset(&w, mpmc, budget, en);
    G_MY_STREAM = i;
    G_MY_READER = reader as *const Reader as usize;
    rt::ENV_MODE = ENV_PROTOCOL;
    let r = w.q.try_recv(reader);
    rt::ENV_MODE = ENV_OFF;
    assert!(pay::DOUBLE_DROP == 0 && pay::DROP_OF_UNCREATED == 0, "C05: a speculative read whose commit failed must be forgotten, never destroyed");
    match r {
        Ok(v) => {
            assert!(G_MY_COMMITS == 1, "C01: a delivered value corresponds to exactly one successful commit");
            assert!(G_MY_COMMIT_PUBLISHED, "C01/C03: commit on a count whose value is not (or no longer) in its slot");
            assert!(v.val == G_MY_COMMIT_VAL, "C01/C02/C04: the delivered value is the one published under the committed count");
            assert!(v.is_live(), "C04: delivered value must be live");
            mem::forget(v);
        }
        Err((_pt, TryRecvError::Empty)) => {
            assert!(G_MY_COMMITS == 0, "C01: Empty after a successful commit loses a value");
        }
        Err((_pt, TryRecvError::Disconnected)) => {
            assert!(G_MY_COMMITS == 0, "C01: Disconnected after a successful commit loses a value");
            assert!(w.q.writers.peek() == 0, "C07: the end is reported while a sender is alive");
            assert!(reader.vf_pos() == w.q.head.vf_peek() && !any_pending(n), "C07: the end is reported while an accepted value is still undelivered to this stream");
        }
    }
    let mut s = 0;
    while s < n {
        assert!(G_MY_PIN[s] == 0, "C06: a pin is left behind (the slot can never be written again)");
        s += 1;
    }
    kani_cover!(ENV_TAKEN[A_CONSUME as usize] > 0 && r_is_ok_flag(), "sibling consumed and a value was still delivered");
    kani_cover!(ENV_TAKEN[A_PUBLISH as usize] > 0, "env publish taken");
    mem::forget(w);
}

pub static mut LAST_OK: bool = false;
fn r_is_ok_flag() -> bool {
    unsafe { G_MY_COMMITS == 1 }
}

/// try_recv_view (sole consumer) under senders wrapping the ring and other streams' consumers.
pub unsafe fn i_try_recv_view<RW: QueueRW<Pay>>(n: usize, k: usize, mpmc: bool, budget: usize) {
    let w = World::<RW>::arbitrary(n, k, mpmc, false);
    let a0 = w.a;
    let i: usize = rt::oracle_usize();
    rt::assume(i < a0.k && a0.ncons[i] == 1);
    let reader: &Reader = match &w.rd[i] {
        Some(r) => r,
        None => unreachable!(),
    };
    let en: u32 = (1 << A_CONSUME) | (1 << A_PIN) | (1 << A_CLAIM) | (1 << A_PUBLISH) | (1 << A_SENDER);
    env_reset(&w, mpmc, budget, en);
    G_MY_STREAM = i;
    G_MY_READER = reader as *const Reader as usize;
    VIEW_CALLS = 0;
    rt::ENV_MODE = ENV_PROTOCOL;
    let r = w.q.try_recv_view(view_fn, reader);
    rt::ENV_MODE = ENV_OFF;
    assert!(pay::DOUBLE_DROP == 0 && pay::DROP_OF_UNCREATED == 0, "C05: double drop / drop of garbage under interference");
    match r {
        Ok(x) => {
            assert!(G_MY_COMMITS == 1 && VIEW_CALLS == 1, "C01: one commit and one closure call per delivered value");
            assert!(G_MY_COMMIT_PUBLISHED && x == G_MY_COMMIT_VAL && VIEW_LIVE, "C01/C04: the closure saw the live value published under the committed count");
        }
        Err((_f, _pt, TryRecvError::Empty)) => assert!(G_MY_COMMITS == 0 && VIEW_CALLS == 0),
        Err((_f, _pt, TryRecvError::Disconnected)) => {
            assert!(G_MY_COMMITS == 0 && VIEW_CALLS == 0);
            assert!(w.q.writers.peek() == 0, "C07: the end is reported while a sender is alive");
            assert!(reader.vf_pos() == w.q.head.vf_peek() && !any_pending(n), "C07: the end is reported while an accepted value is still undelivered to this stream");
        }
    }
    mem::forget(w);
}
