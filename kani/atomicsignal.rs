// contracts and harnesses for src/atomicsignal.rs (included as multiqueue2::atomicsignal::verif_contracts)
