// contracts and harnesses for src/atomicsignal.rs (included as multiqueue2::atomicsignal::verif_contracts)
use super::*;
use crate::verif_hooks::*;

impl AtomicSignal {
    pub(crate) fn vf_bits(&self) -> usize {
        self.flags.peek()
    }
    pub(crate) fn vf_set_bits(&self, v: usize) {
        self.flags.poke(v)
    }
}

#[cfg(kani)]
mod proofs {
    use super::*;

    /// P11: bit algebra of the signal word, all 2^64 flag words
    #[kani::proof]
    fn p11_signal_bits() {
        let f: usize = kani::any();
        let s = AtomicSignal::new();
        assert!(s.vf_bits() == 0 && !s.load(Ordering::Relaxed).has_action());
        s.vf_set_bits(f);
        let l = s.load(Ordering::Relaxed);
        assert!(l.has_action() == (f != 0));
        assert!(l.get_epoch() == (f & 1 != 0));
        assert!(l.get_reader() == (f & 2 != 0));
        let prev = s.set_reader(Ordering::SeqCst);
        assert!(prev == (f & 2 != 0) && s.vf_bits() == f | 2, "C13: set_reader sets exactly the no-reader bit");
        let prev = s.set_epoch(Ordering::Release);
        assert!(prev == (f & 1 != 0) && s.vf_bits() == f | 3);
        let prev = s.clear_epoch(Ordering::Release);
        assert!(prev && s.vf_bits() == (f | 2) & !1, "clear_epoch clears exactly the epoch bit (the no-reader bit survives)");
        assert!(s.load(Ordering::Relaxed).get_reader(), "C13: the no-reader bit is never cleared by epoch traffic");
    }
}
