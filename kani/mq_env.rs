// Environment: what OTHER threads of the queue protocol may do between two shared-memory
// operations of the function under proof (layer I), and the scripted wake-up used by the blocking
// receive contracts (layer S8).  Included into multiqueue::verif_contracts.
//
// The environment acts on the real memory of the queue under test through ghost accessors
// (`peek`/`poke`), always in whole protocol steps.  Its moves are chosen by `rt::oracle_*`
// (kani::any under Kani, recorded values in a native replay).

pub const ENV_OFF: u32 = 0;
/// on a `Wait::wait` call: either publish one value (when the ring has room) or let every sender go
pub const ENV_WAKE_SCRIPT: u32 = 1;
/// protocol environment: budgeted abstract actions before every shared access (see env_protocol)
pub const ENV_PROTOCOL: u32 = 2;
/// like ENV_WAKE_SCRIPT, but triggered by the first yield / lock / condition wait / wait-strategy call
pub const ENV_WAKE_ON_ANY: u32 = 3;

/// FutWait::park harness (mode 102): publish the awaited count exactly when the list lock is taken
pub static mut FW_FLIP_AT_LOCK: bool = false;
pub static mut FW_CELL: usize = 0;
pub static mut FW_SEQ: usize = 0;

pub static mut WR_CELL: usize = 0; // writer-count cell (mode 104)
/// consumer-count harness (mode 103): my writes to the stream's consumer count
pub static mut CC_WRITES: usize = 0;
pub static mut CC_OLD: usize = 0;
pub static mut CC_NEW: usize = 0;
pub static mut CC_KIND: u8 = 0;

pub static mut ENV_Q: usize = 0; // address of the MultiQueue under test
pub static mut ENV_MPMC: bool = false;
pub static mut ENV_N: usize = 0;
/// what the scripted wake-up did: 0 nothing yet, 1 published, 2 senders gone
pub static mut ENV_WAKE_DID: u8 = 0;
pub static mut ENV_WAKE_VAL: usize = 0;
/// remaining environment actions (ENV_PROTOCOL)
pub static mut ENV_BUDGET: usize = 0;
/// which action kinds are enabled (bit set)
pub static mut ENV_ENABLED: u32 = 0;
/// how many actions of each kind were taken (for covers)
pub static mut ENV_TAKEN: [usize; 8] = [0; 8];

impl EnvDispatch for TheEnv {
    fn step(kind: u8, addr: usize) {
        unsafe {
            match rt::ENV_MODE {
                ENV_WAKE_SCRIPT => {
                    if kind == K_CONDWAIT {
                        if ENV_MPMC {
                            env_wake::<MPMC<Pay>>(ENV_Q as *const MultiQueue<MPMC<Pay>, Pay>);
                        } else {
                            env_wake::<BCast<Pay>>(ENV_Q as *const MultiQueue<BCast<Pay>, Pay>);
                        }
                    }
                }
                ENV_WAKE_ON_ANY => {
                    if kind == K_CONDWAIT || kind == K_YIELD || kind == K_LOCK {
                        if ENV_MPMC {
                            env_wake::<MPMC<Pay>>(ENV_Q as *const MultiQueue<MPMC<Pay>, Pay>);
                        } else {
                            env_wake::<BCast<Pay>>(ENV_Q as *const MultiQueue<BCast<Pay>, Pay>);
                        }
                    }
                }
                ENV_PROTOCOL => {
                    if ENV_MPMC {
                        env_protocol::<MPMC<Pay>>(ENV_Q as *const MultiQueue<MPMC<Pay>, Pay>, kind, addr);
                    } else {
                        env_protocol::<BCast<Pay>>(ENV_Q as *const MultiQueue<BCast<Pay>, Pay>, kind, addr);
                    }
                }
                104 => {
                    // sender-drop harness: another sender handle is dropped at this very moment
                    if addr == WR_CELL && ENV_BUDGET > 0 && rt::oracle_bool() {
                        let c = cell(WR_CELL).peek();
                        if c >= 2 {
                            cell(WR_CELL).poke(c - 1);
                            ENV_BUDGET -= 1;
                            ENV_TAKEN[2] += 1;
                        }
                    }
                }
                103 => {
                    // consumer-count harness: a sibling handle of the stream is dropped at this very moment
                    if addr == G_CONS_CELL && ENV_BUDGET > 0 && rt::oracle_bool() {
                        let c = cell(G_CONS_CELL).peek();
                        if c >= 2 {
                            cell(G_CONS_CELL).poke(c - 1);
                            ENV_BUDGET -= 1;
                            ENV_TAKEN[2] += 1;
                        }
                    }
                }
                102 => {
                    // FutWait::park harness: the awaited value is published exactly when the list lock is taken
                    if kind == K_LOCK && FW_FLIP_AT_LOCK {
                        (*(FW_CELL as *const AtomicUsize)).poke(FW_SEQ);
                    }
                }
                100 | 101 | 106 => {
                    // wait-strategy harnesses (wait.rs contracts): count pauses, release the waiter
                    crate::wait::BusyWait::vf_pause(kind, addr);
                }
                _ => {}
            }
        }
    }
    fn wrote(kind: u8, addr: usize, old: usize, new: usize) {
        unsafe {
            if rt::ENV_MODE == ENV_PROTOCOL {
                guarantee_log(kind, addr, old, new);
            }
            if rt::ENV_MODE == 103 && addr == G_CONS_CELL {
                CC_WRITES += 1;
                CC_OLD = old;
                CC_NEW = new;
                CC_KIND = kind;
            }
        }
    }
}

/// the minimum stream position of the published list (ghost read)
unsafe fn env_min_pos<RW: QueueRW<Pay>>(q: &MultiQueue<RW, Pay>) -> (usize, usize) {
    let lv = q.tail.vf_view();
    let head = q.head.vf_peek();
    let mut m = head;
    let mut i = 0;
    while i < lv.k {
        if lv.pos[i] < m {
            m = lv.pos[i];
        }
        i += 1;
    }
    (m, lv.k)
}

/// another sender publishes one complete value at the current claim counter (claim + write + tag)
unsafe fn env_publish<RW: QueueRW<Pay>>(q: &MultiQueue<RW, Pay>, v: usize) -> bool {
    let head = q.head.vf_peek();
    let n = q.capacity as usize;
    let (min, k) = env_min_pos(q);
    if k > 0 && head - min >= n {
        return false;
    }
    let slot = head & (n - 1);
    let cell = &mut *q.data.add(slot);
    if (*q.refs.add(slot)).refcnt.peek() != 0 {
        return false;
    }
    let old_tag = cell.wraps.peek();
    if RW::do_drop() && !is_tagged(old_tag) {
        let _old = ptr::read(&cell.val);
    }
    ptr::write(&mut cell.val, Pay::new(v));
    cell.wraps.poke(head);
    q.head.vf_poke(head + 1);
    true
}

unsafe fn env_wake<RW: QueueRW<Pay>>(q: *const MultiQueue<RW, Pay>) {
    let q = &*q;
    if ENV_WAKE_DID != 0 {
        return;
    }
    let publish = rt::oracle_bool();
    let v = rt::oracle_usize();
    if publish && q.writers.peek() > 0 && env_publish(q, v) {
        ENV_WAKE_DID = 1;
        ENV_WAKE_VAL = v;
    } else {
        q.writers.poke(0);
        ENV_WAKE_DID = 2;
    }
}

// protocol environment + guarantee log: filled in by mq_interference.rs
include!("mq_interference.rs");
