// contracts and harnesses for src/wait.rs (included as multiqueue2::wait::verif_contracts)
