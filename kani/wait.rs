// contracts and harnesses for src/wait.rs (included as multiqueue2::wait::verif_contracts)
//
// P10: `check` against its specification on the full input domain.
// W1-W3 (C08): every built-in strategy's `wait` returns exactly when `check` has been observed
// true, re-evaluating it after every pause; BlockingWait sleeps on its condition variable only
// after having evaluated `check` false while holding its lock, and `notify` takes the same lock
// (monitor discipline: no wake-up can fall between the test and the sleep).

use super::*;
use crate::verif_hooks::*;

/// what the property needs from the wake-up test of a receiver waiting for count `seq` on the tag cell
/// of its slot: ready iff no sender is left, or the slot shows `seq`, or the slot shows a LATER count
/// of the same slot (the awaited value was already overwritten, the stream has moved on).  A slot that
/// was never written (flag bit set) shows no count at all: not ready.
pub(crate) fn spec_check(seq: usize, tag: usize, wc: usize) -> bool {
    if wc == 0 {
        return true;
    }
    if tag & (1usize << 63) != 0 {
        return false;
    }
    tag == seq || seq.wrapping_sub(tag) > 0x3fff_ffff_ffff_ffff
}

/// scripted cell for the wait harnesses: the environment flips it when the waiter pauses
pub(crate) static mut W_CELL: usize = 0; // address of the tag cell
pub(crate) static mut W_WC: usize = 0; // address of the writer count
pub(crate) static mut W_SEQ: usize = 0;
pub(crate) static mut W_PAUSES: usize = 0;
pub(crate) static mut W_RELEASE_AT: usize = 0; // number of pauses after which the condition becomes true
pub(crate) static mut W_BY_END: bool = false; // become true by "no sender left" instead of publication
pub(crate) static mut W_CHECKED_UNDER_LOCK_BEFORE_SLEEP: bool = true;

impl BusyWait {
    pub(crate) fn vf_spec_check(seq: usize, tag: usize, wc: usize) -> bool {
        spec_check(seq, tag, wc)
    }
    /// environment of the wait harnesses: on every pause (yield / condition wait / for the busy
    /// strategy: every look at the cell) count it, and after W_RELEASE_AT pauses make the condition true
    pub(crate) unsafe fn vf_pause(kind: u8, addr: usize) {
        let is_pause = match rt::ENV_MODE {
            106 => kind == K_LOCK,
            100 => kind == K_YIELD || kind == K_CONDWAIT,
            _ => kind == K_LOAD && addr == W_CELL,
        };
        if !is_pause {
            return;
        }
        W_PAUSES += 1;
        if W_PAUSES >= W_RELEASE_AT {
            if W_BY_END {
                (*(W_WC as *const AtomicUsize)).poke(0);
            } else {
                (*(W_CELL as *const AtomicUsize)).poke(W_SEQ);
            }
        }
    }
}

#[cfg(kani)]
mod proofs {
    use super::*;

    #[kani::proof]
    fn p10_check_spec() {
        let seq: usize = kani::any();
        let tag: usize = kani::any();
        let wc: usize = kani::any();
        kani::assume(seq < (1usize << 63));
        let at = AtomicUsize::new(tag);
        let w = AtomicUsize::new(wc);
        assert!(load_tagless(&at) == tag & ((1usize << 63) - 1));
        assert!(check(seq, &at, &w) == spec_check(seq, tag, wc), "C08/C15: the wake-up test is true exactly when the awaited count (or a later lap of its slot) is published or no sender is left; a never-written slot is not ready");
    }

    unsafe fn run_wait<W: Wait>(wt: &W, spin_pauses: bool) {
        let seq: usize = kani::any();
        kani::assume(seq < (1usize << 62));
        let stale: usize = kani::any();
        // the slot shows an older lap of itself (or was never written)
        kani::assume(stale == usize::MAX || (stale < seq && seq - stale <= 8));
        let at = AtomicUsize::new(stale);
        let wc = AtomicUsize::new(1);
        W_CELL = &at as *const AtomicUsize as usize;
        W_WC = &wc as *const AtomicUsize as usize;
        W_SEQ = seq;
        W_PAUSES = 0;
        W_RELEASE_AT = kani::any();
        kani::assume(W_RELEASE_AT >= 1 && W_RELEASE_AT <= 2);
        W_BY_END = kani::any();
        rt::ENV_MODE = if spin_pauses { 101 } else { 100 }; // wait-harness environments (dispatched in multiqueue contracts)
        wt.wait(seq, &at, &wc);
        rt::ENV_MODE = 0;
        assert!(spec_check(seq, at.peek(), wc.peek()), "C08: wait returned although neither the value nor the end is there");
        assert!(W_PAUSES >= 1, "the condition was false on entry: the waiter must have paused at least once");
        let _ = spin_pauses;
    }

    /// W1: BusyWait (pauses = looks at the cell)
    #[kani::proof]
    #[kani::unwind(5)]
    fn w1_busy_wait() {
        let wt = BusyWait::new();
        unsafe { run_wait(&wt, true) }
    }

    /// W2: YieldingWait with zero and small spin counts
    #[kani::proof]
    #[kani::unwind(6)]
    fn w2_yielding_wait() {
        let sf: usize = kani::any();
        let sy: usize = kani::any();
        kani::assume(sf <= 1 && sy <= 2);
        let wt = YieldingWait::with_spins(sf, sy);
        unsafe { run_wait(&wt, false) }
    }

    /// W3: BlockingWait with zero and small spin counts
    #[kani::proof]
    #[kani::unwind(5)]
    fn w3_blocking_wait() {
        let sf: usize = kani::any();
        let sy: usize = kani::any();
        kani::assume(sf <= 1 && sy <= 1);
        let wt = BlockingWait::with_spins(sf, sy);
        unsafe {
            run_wait(&wt, false);
            assert!(!wt.lock.is_held(), "C08: the strategy's lock is released on return");
        }
    }

    /// W3c: no lost wake-up: the value arrives after the spinning but exactly when the waiter takes its
    /// lock; the test made UNDER the lock must see it, so the waiter never reaches the condition variable
    #[kani::proof]
    #[kani::unwind(5)]
    fn w3_blocking_wait_flip_at_lock() {
        let sf: usize = kani::any();
        let sy: usize = kani::any();
        kani::assume(sf <= 1 && sy <= 1);
        let wt = BlockingWait::with_spins(sf, sy);
        let seq: usize = kani::any();
        kani::assume(seq < (1usize << 62));
        let stale: usize = kani::any();
        kani::assume(stale == usize::MAX || (stale < seq && seq - stale <= 8));
        let at = AtomicUsize::new(stale);
        let wc = AtomicUsize::new(1);
        unsafe {
            W_CELL = &at as *const AtomicUsize as usize;
            W_WC = &wc as *const AtomicUsize as usize;
            W_SEQ = seq;
            W_PAUSES = 0;
            W_RELEASE_AT = 1;
            W_BY_END = kani::any();
            rt::CONDVAR_WAITS = 0;
            rt::ENV_MODE = 106; // pause = the waiter takes its lock
            wt.wait(seq, &at, &wc);
            rt::ENV_MODE = 0;
            assert!(spec_check(seq, at.peek(), wc.peek()));
            assert!(rt::CONDVAR_WAITS == 0, "C08: the wake-up test must be repeated under the strategy's lock before sleeping (lost wake-up)");
            assert!(!wt.lock.is_held());
        }
    }

    /// W3b: notify takes the strategy's lock (monitor discipline) and signals the condition variable
    #[kani::proof]
    #[kani::unwind(3)]
    fn w3_blocking_notify() {
        let wt = BlockingWait::with_spins(0, 0);
        unsafe {
            rt::LOCKS_TAKEN = 0;
        }
        wt.notify();
        unsafe {
            assert!(rt::LOCKS_TAKEN == 1, "C08: notify must take the lock the sleeper tests under");
            assert!(!wt.lock.is_held());
        }
        assert!(wt.needs_notify() && !BusyWait::new().needs_notify() && !YieldingWait::new().needs_notify());
    }
}
