// Layer I: protocol environment (rely) and guarantee log.  Included into
// multiqueue::verif_contracts through mq_env.rs.  See DESIGN.md §3.3 and §14.
//
// The function under proof runs on the real queue memory.  Before each of its shared-memory
// operations (fences excepted) `env_protocol` may perform ONE abstract action of another protocol
// participant, up to ENV_BUDGET per call; after each of its own writes `guarantee_log` checks that the
// write is an instance of the guarantee relation.  Every action is a whole protocol step applied to
// the same real memory.  Own-handle exclusivity (nobody else uses MY handle) is what `!Sync` (C19)
// licenses.  The action code is deliberately straight-line and works on addresses cached by
// `env_reset`: CBMC inlines it at every access point of the function under proof.

// action kinds (bits in ENV_ENABLED, indices in ENV_TAKEN)
pub const A_PUBLISH: u32 = 0; // another sender claims the next count and publishes a value (claim + write + tag)
pub const A_CONSUME: u32 = 1; // another consumer finishes a receive: a stream position advances by one
pub const A_PIN: u32 = 2; // a sibling broadcast consumer pins+validates / unpins a slot
pub const A_SENDER: u32 = 3; // another sender handle is cloned / dropped
pub const A_CACHE: u32 = 4; // another sender refreshes the cached tail
pub const A_CONSUMER: u32 = 5; // a sibling consumer handle of my stream is cloned / dropped
pub const A_ADDSTREAM: u32 = 6; // another consumer handle completes an add_stream (the published list is replaced), once per call

pub static mut ENV_PER_POINT: usize = 1;
pub static mut G_ADDING_STREAM: bool = false;
/// my consumer handle shares its stream (set by the harness): the pin protocol applies to me
pub static mut G_MY_SHARED: bool = false;
/// serial of the payload instance the sender under proof is publishing (usize::MAX = not a sender harness)
pub static mut G_MY_SEND_SER: usize = usize::MAX;
pub static mut G_PUBLISHED_POS: usize = 0;
pub static mut G_ME_SENDER: bool = false; // the function under proof runs on a sender handle
pub static mut G_MY_STREAM: usize = usize::MAX; // index of the stream my consumer handle reads (or MAX)
pub static mut G_MY_READER: usize = 0; // address of my Reader handle
pub static mut G_K: usize = 0; // number of streams
pub static mut G_POS_CELL: [usize; MAXS] = [0; MAXS]; // address of each stream's position counter
pub static mut G_CONS_CELL: usize = 0; // address of my stream's consumer count
pub static mut G_MY_POS_CELL: usize = 0; // address of my stream's position counter
pub static mut G_HEAD_CELL: usize = 0;
/// position counter of the stream the environment added during the call (0 = none)
pub static mut G_EXTRA_POS_CELL: usize = 0;
/// my consumer handle is a view receiver (move-out flavour: the value must be destroyed before the cursor is released)
pub static mut G_MY_VIEW: bool = false;
pub static mut G_ENV_VPIN: [usize; NMAX] = [0; NMAX]; // validated pins held by env consumers
pub static mut G_MY_PIN: [usize; NMAX] = [0; NMAX]; // my pins
pub static mut G_MY_VALID: [bool; NMAX] = [false; NMAX]; // my pin on that slot passed the position re-check
pub static mut G_PUB_COUNT: [usize; NMAX] = [usize::MAX; NMAX]; // count / value last published in each slot
pub static mut G_PUB_VAL: [usize; NMAX] = [0; NMAX];
// what the function under proof did (guarantee log)
pub static mut G_MY_CLAIMS: usize = 0;
pub static mut G_MY_CLAIM_COUNT: usize = 0;
pub static mut G_MY_COMMITS: usize = 0;
pub static mut G_MY_COMMIT_COUNT: usize = 0;
pub static mut G_MY_COMMIT_VAL: usize = 0;
pub static mut G_MY_COMMIT_PUBLISHED: bool = false;
pub static mut G_MY_TAG_STORES: usize = 0;

/// serial numbers of payload instances written by the environment: one per slot
pub const ENV_SER_BASE: usize = 12;
/// does slot s currently hold an instance written by the environment (serial ENV_SER_BASE+s) rather
/// than the generator's (serial s)?
pub static mut G_SLOT_ENV: [bool; NMAX] = [false; NMAX];

// NOTE on style: CBMC lowers every array / heap access with a SYMBOLIC index through its array theory,
// whose post-processing explodes when such accesses sit at every access point of the function under
// proof.  All environment and guarantee code therefore finds the slot / stream with a loop over the
// CONCRETE indices and touches memory only under `if s == slot`.

unsafe fn mark_slot_instance(s: usize, st: u8) {
    if G_SLOT_ENV[s] {
        pay::STATE[ENV_SER_BASE + s] = st;
    } else {
        pay::STATE[s] = st;
    }
}

unsafe fn env_reset<RW: QueueRW<Pay>>(w: &World<RW>, mpmc: bool, budget: usize, enabled: u32) {
    ENV_Q = &w.q.inner as *const MultiQueue<RW, Pay> as usize;
    ENV_MPMC = mpmc;
    ENV_N = w.a.n;
    ENV_BUDGET = budget;
    ENV_ENABLED = enabled;
    ENV_TAKEN = [0; 8];
    ENV_PER_POINT = 1;
    G_ME_SENDER = false;
    G_EXTRA_POS_CELL = 0;
    G_MY_VIEW = false;
    G_MY_SHARED = false;
    G_MY_SEND_SER = usize::MAX;
    G_MY_STREAM = usize::MAX;
    G_MY_CLAIMS = 0;
    G_MY_COMMITS = 0;
    G_MY_TAG_STORES = 0;
    G_K = w.a.k;
    G_HEAD_CELL = w.q.head.vf_cell_addr();
    let mut i = 0;
    while i < w.a.k {
        G_POS_CELL[i] = match &w.rd[i] {
            Some(r) => r.vf_pos_cell_addr(),
            None => 0,
        };
        i += 1;
    }
    let mut s = 0;
    while s < w.a.n {
        G_SLOT_ENV[s] = false;
        G_ENV_VPIN[s] = 0;
        G_MY_PIN[s] = 0;
        G_MY_VALID[s] = false;
        G_PUB_COUNT[s] = if w.a.tag[s] == INITIAL_QUEUE_FLAG { usize::MAX } else { w.a.tag[s] };
        G_PUB_VAL[s] = w.a.val[s];
        s += 1;
    }
}

unsafe fn env_set_me_reader(i: usize, reader: &Reader) {
    G_MY_STREAM = i;
    G_MY_READER = reader as *const Reader as usize;
    G_CONS_CELL = reader.vf_consumers_addr();
    G_MY_POS_CELL = reader.vf_pos_cell_addr();
}

fn enabled(a: u32) -> bool {
    unsafe { ENV_ENABLED & (1 << a) != 0 }
}

#[inline(always)]
unsafe fn cell(addr: usize) -> &'static AtomicUsize {
    &*(addr as *const AtomicUsize)
}

/// One environment turn: at most one action, chosen by the oracle.
unsafe fn env_protocol<RW: QueueRW<Pay>>(q: *const MultiQueue<RW, Pay>, kind: u8, addr: usize) {
    // a fence is not an observation point under sequential consistency
    if kind == K_FENCE {
        return;
    }
    let q = &*q;
    let n = q.capacity as usize;
    if kind == K_USER && G_MY_SHARED && RW::do_drop() && G_CONS_CELL != 0 && cell(G_CONS_CELL).peek() >= 2 {
        // I am a consumer of a broadcast stream that is SHARED at this instant and I am inside the payload's
        // Clone right now: the slot I am reading must be protected by a pin of mine that passed the position
        // re-check.  (When every sibling handle was dropped before I looked at the consumer count I am the
        // sole consumer and need no pin: the count of a stream cannot rise while its only handle is in a call.)
        let mut s = 0;
        while s < n {
            if addr == &(*q.data.add(s)).val as *const Pay as usize {
                assert!(G_MY_PIN[s] > 0 && G_MY_VALID[s], "C04: a shared broadcast consumer reads the value without holding a validated pin on its slot");
            }
            s += 1;
        }
    }
    let mut turn = 0;
    while turn < ENV_PER_POINT {
        if !(ENV_BUDGET > 0 && rt::oracle_bool()) {
            break;
        }
        let act = rt::oracle_u8() as u32;
        rt::assume(act < 7 && enabled(act));
        // the enabled-bit tests come first and are concrete per harness: CBMC then never unfolds the code
        // of a move the harness does not enable (the add_stream move allocates and copies a list)
        let done = if enabled(A_PUBLISH) && act == A_PUBLISH {
            env_publish_one(q, n)
        } else if enabled(A_CONSUME) && act == A_CONSUME {
            env_consume(q, n)
        } else if enabled(A_PIN) && act == A_PIN {
            env_pin(q, n)
        } else if enabled(A_SENDER) && act == A_SENDER {
            env_sender(q)
        } else if enabled(A_CACHE) && act == A_CACHE {
            env_cache(q)
        } else if enabled(A_ADDSTREAM) && act == A_ADDSTREAM {
            env_add_stream(q, n)
        } else if enabled(A_CONSUMER) && act == A_CONSUMER {
            env_consumer()
        } else {
            false
        };
        // an action that is not enabled in this state is not a move
        rt::assume(done);
        ENV_BUDGET -= 1;
        if act == A_PUBLISH {
            ENV_TAKEN[0] += 1;
        } else if act == A_CONSUME {
            ENV_TAKEN[1] += 1;
        } else {
            ENV_TAKEN[2] += 1;
        }
        turn += 1;
    }
    // my validating position load (shared broadcast consumer): it will read the position as it is now
    if kind == K_LOAD && G_MY_STREAM != usize::MAX && addr == G_MY_POS_CELL {
        let p = cell(addr).peek();
        let slot = p & (n - 1);
        let mut s = 0;
        while s < n {
            if s == slot && G_MY_PIN[s] > 0 && (*q.data.add(s)).wraps.peek() == p {
                G_MY_VALID[s] = true;
            }
            s += 1;
        }
    }
}

unsafe fn other_writers<RW: QueueRW<Pay>>(q: &MultiQueue<RW, Pay>) -> usize {
    let w = q.writers.peek();
    if G_ME_SENDER {
        w - 1
    } else {
        w
    }
}

/// minimum stream position (head if there is no stream)
unsafe fn true_min<RW: QueueRW<Pay>>(q: &MultiQueue<RW, Pay>) -> usize {
    let mut m = q.head.vf_peek();
    let mut i = 0;
    while i < G_K {
        let p = cell(G_POS_CELL[i]).peek();
        if p < m {
            m = p;
        }
        i += 1;
    }
    if G_EXTRA_POS_CELL != 0 {
        let p = cell(G_EXTRA_POS_CELL).peek();
        if p < m {
            m = p;
        }
    }
    m
}

/// AddStream: another consumer handle of stream j completes an add_stream: a new stream appears in the
/// published list at stream j's current position (at most once per call).
unsafe fn env_add_stream<RW: QueueRW<Pay>>(q: &MultiQueue<RW, Pay>, n: usize) -> bool {
    if G_EXTRA_POS_CELL != 0 || G_K == 0 {
        return false;
    }
    let j = rt::oracle_usize();
    rt::assume(j < G_K);
    let mut ok = false;
    let mut jj = 0;
    while jj < G_K {
        if jj == j {
            let p = cell(G_POS_CELL[jj]).peek();
            G_EXTRA_POS_CELL = q.tail.vf_env_add_stream(p, n as Index);
            ok = true;
        }
        jj += 1;
    }
    ok
}

unsafe fn any_pending(_n: usize) -> bool {
    false
}

/// Publish: an env sender claims the next count and publishes a value.  Enabled when an env sender
/// exists, the window has room with respect to the TRUE minimum (a real writer's cached minimum is
/// never ahead of it), and no validated pin protects the slot (a real writer saw the pin count at
/// zero after the positions had moved past the slot, see DESIGN §3.3).
unsafe fn env_publish_one<RW: QueueRW<Pay>>(q: &MultiQueue<RW, Pay>, n: usize) -> bool {
    if other_writers(q) == 0 {
        return false;
    }
    let head = q.head.vf_peek();
    let min = true_min(q);
    if G_K > 0 && head - min >= n {
        return false;
    }
    // a real writer claims only after its full test passed on the cached tail; when the cache says
    // "full" it first refreshes it (to the minimum it computed) -- modelled as part of the same move, so
    // that the environment keeps the invariant head - tail_cache <= N that the writers themselves keep
    let tc = q.tail_cache.peek();
    if head - tc >= n {
        q.tail_cache.poke(min);
    }
    let slot = head & (n - 1);
    let v = rt::oracle_usize();
    let mut ok = false;
    let mut s = 0;
    while s < n {
        if s == slot && G_ENV_VPIN[s] == 0 && !(G_MY_PIN[s] > 0 && G_MY_VALID[s]) {
            let c = &mut *q.data.add(s);
            let old_tag = c.wraps.peek();
            if RW::do_drop() && !is_tagged(old_tag) {
                // the overwritten broadcast value is destroyed by the writer
                mark_slot_instance(s, 2);
            }
            c.val.val = v;
            c.val.ser = ENV_SER_BASE + s;
            G_SLOT_ENV[s] = true;
            pay::STATE[ENV_SER_BASE + s] = 1;
            c.wraps.poke(head);
            G_PUB_COUNT[s] = head;
            G_PUB_VAL[s] = v;
            ok = true;
        }
        s += 1;
    }
    if ok {
        q.head.vf_poke(head + 1);
    }
    ok
}

/// Consume: another consumer finishes a receive on stream j: position p -> p+1.  Enabled when the
/// value at p is published; on MY stream only when a sibling handle exists.
unsafe fn env_consume<RW: QueueRW<Pay>>(q: &MultiQueue<RW, Pay>, n: usize) -> bool {
    let j = rt::oracle_usize();
    rt::assume(j < G_K);
    if j == G_MY_STREAM && cell(G_CONS_CELL).peek() < 2 {
        return false;
    }
    let mut ok = false;
    let mut jj = 0;
    while jj < G_K {
        if jj == j {
            let pc = cell(G_POS_CELL[jj]);
            let p = pc.peek();
            let slot = p & (n - 1);
            let mut s = 0;
            while s < n {
                if s == slot && (*q.data.add(s)).wraps.peek() == p {
                    if !RW::do_drop() {
                        // move-out flavour: the sibling takes the instance with it
                        mark_slot_instance(s, 2);
                    }
                    ok = true;
                }
                s += 1;
            }
            if ok {
                pc.poke(p + 1);
            }
        }
        jj += 1;
    }
    ok
}

/// Pin / unpin by a sibling broadcast consumer of some stream: a pin is counted only once validated
/// (position still equal to the slot's count); unpin releases one.
unsafe fn env_pin<RW: QueueRW<Pay>>(q: &MultiQueue<RW, Pay>, n: usize) -> bool {
    if !RW::do_drop() {
        return false;
    }
    let release = rt::oracle_bool();
    let mut ok = false;
    if release {
        let slot = rt::oracle_usize();
        rt::assume(slot < n);
        let mut s = 0;
        while s < n {
            if s == slot && G_ENV_VPIN[s] > 0 {
                G_ENV_VPIN[s] -= 1;
                let rc = &(*q.refs.add(s)).refcnt;
                rc.poke(rc.peek() - 1);
                ok = true;
            }
            s += 1;
        }
        return ok;
    }
    let j = rt::oracle_usize();
    rt::assume(j < G_K);
    let mut jj = 0;
    while jj < G_K {
        if jj == j {
            let p = cell(G_POS_CELL[jj]).peek();
            let slot = p & (n - 1);
            let mut s = 0;
            while s < n {
                if s == slot && (*q.data.add(s)).wraps.peek() == p {
                    G_ENV_VPIN[s] += 1;
                    let rc = &(*q.refs.add(s)).refcnt;
                    rc.poke(rc.peek() + 1);
                    ok = true;
                }
                s += 1;
            }
        }
        jj += 1;
    }
    ok
}

/// Another sender handle is cloned (needs a live other sender) or dropped.
unsafe fn env_sender<RW: QueueRW<Pay>>(q: &MultiQueue<RW, Pay>) -> bool {
    let ow = other_writers(q);
    let up = rt::oracle_bool();
    if up {
        if ow == 0 || ow >= 3 {
            return false;
        }
        q.writers.poke(q.writers.peek() + 1);
    } else {
        if ow == 0 {
            return false;
        }
        q.writers.poke(q.writers.peek() - 1);
    }
    true
}

/// Another sender refreshes the cached tail to a value between the cache and the true minimum.
unsafe fn env_cache<RW: QueueRW<Pay>>(q: &MultiQueue<RW, Pay>) -> bool {
    if other_writers(q) == 0 {
        return false;
    }
    let min = true_min(q);
    let tc = q.tail_cache.peek();
    let v = rt::oracle_usize();
    rt::assume(v >= tc && v <= min);
    q.tail_cache.poke(v);
    true
}

/// A sibling consumer handle of MY stream is cloned / dropped (my own handle cannot be cloned by
/// anybody else, so the count can only rise when a sibling exists, and never falls below one).
unsafe fn env_consumer() -> bool {
    if G_MY_STREAM == usize::MAX {
        return false;
    }
    let cc = cell(G_CONS_CELL);
    let c = cc.peek();
    let up = rt::oracle_bool();
    if up {
        if c < 2 || c >= 3 {
            return false;
        }
        cc.poke(c + 1);
    } else {
        if c < 2 {
            return false;
        }
        cc.poke(c - 1);
    }
    true
}

/// Guarantee: every shared write of the function under proof must be one of the protocol's actions
/// with its enabling condition true at that instant.
unsafe fn guarantee_log(kind: u8, addr: usize, old: usize, new: usize) {
    if ENV_MPMC {
        guarantee::<MPMC<Pay>>(ENV_Q as *const MultiQueue<MPMC<Pay>, Pay>, kind, addr, old, new);
    } else {
        guarantee::<BCast<Pay>>(ENV_Q as *const MultiQueue<BCast<Pay>, Pay>, kind, addr, old, new);
    }
}

unsafe fn guarantee<RW: QueueRW<Pay>>(q: *const MultiQueue<RW, Pay>, kind: u8, addr: usize, old: usize, new: usize) {
    let q = &*q;
    let n = q.capacity as usize;
    if addr == G_HEAD_CELL {
        // Claim by me
        assert!(G_ME_SENDER, "only a sender writes the claim counter");
        assert!(new == old + 1, "C01/C02: a claim advances the counter by exactly one");
        if kind != K_CAS {
            assert!(other_writers(q) == 0, "C01/C12: plain store to the claim counter while another sender is alive");
        }
        assert!(G_K == 0 || old - true_min(q) < n, "C01/C03/C06: claim while N values are unconsumed by the slowest stream (window violated at the claim instant)");
        let slot = old & (n - 1);
        let mut s = 0;
        while s < n {
            if s == slot {
                assert!(G_ENV_VPIN[s] == 0, "C04/C12: claim of a slot that a consumer holds a validated pin on (in single- and in multi-writer mode alike)");
            }
            s += 1;
        }
        G_MY_CLAIMS += 1;
        G_MY_CLAIM_COUNT = old;
        return;
    }
    if addr == q.tail.vf_readers_addr() {
        // AddStream / RemoveStream by me: publication of a new stream list
        if G_ADDING_STREAM {
            let newpos = ReadCursor::vf_last_pos_of_group(new);
            let head = q.head.vf_peek();
            assert!(newpos <= head && head - newpos <= n, "C10/C03: add_stream registers the new stream behind the window (its position was read before producers and a sibling of the parent moved on): back-pressure and values are lost");
            G_PUBLISHED_POS = newpos;
        }
        return;
    }
    if addr == &q.tail_cache as *const AtomicUsize as usize {
        assert!(new <= true_min(q), "C01/C03/C06: cached tail ahead of the slowest stream (the full test will then accept a send that overwrites a value that stream has not consumed)");
        if kind != K_CAS {
            assert!(other_writers(q) == 0, "C03/C12: plain store to the cached tail while another sender is alive");
        }
        return;
    }
    if G_MY_STREAM != usize::MAX && addr == G_MY_POS_CELL {
        // Consume by me
        assert!(new == old + 1, "C01: a commit advances the cursor by exactly one");
        if kind != K_CAS {
            assert!(cell(G_CONS_CELL).peek() == 1, "C01/C12: plain store to a cursor that another consumer shares");
        }
        let slot = old & (n - 1);
        G_MY_COMMITS += 1;
        G_MY_COMMIT_COUNT = old;
        let mut s = 0;
        while s < n {
            if s == slot {
                G_MY_COMMIT_PUBLISHED = G_PUB_COUNT[s] == old && (*q.data.add(s)).wraps.peek() == old;
                G_MY_COMMIT_VAL = G_PUB_VAL[s];
                if G_MY_VIEW && !RW::do_drop() {
                    // move-out view: once the cursor is released a producer may write the slot
                    let st = if G_SLOT_ENV[s] { pay::STATE[ENV_SER_BASE + s] } else { pay::STATE[s] };
                    assert!(st == 2, "C05/C04: the cursor is released before the viewed value was destroyed (a producer can overwrite it while its destructor runs)");
                }
            }
            s += 1;
        }
        return;
    }
    let mut s = 0;
    while s < n {
        if addr == &(*q.data.add(s)).wraps as *const AtomicUsize as usize {
            // Publish by me: only the slot of my claim, only with its count
            assert!(G_MY_CLAIMS > 0 && s == G_MY_CLAIM_COUNT & (n - 1) && new == G_MY_CLAIM_COUNT, "C01/C02: tag store for a slot/count this call did not claim");
            assert!(G_MY_SEND_SER == usize::MAX || (*q.data.add(s)).val.ser == G_MY_SEND_SER, "C04: the tag is published before the value is in place (a consumer could observe a slot that is being written)");
            G_PUB_COUNT[s] = new;
            G_PUB_VAL[s] = (*q.data.add(s)).val.val;
            G_MY_TAG_STORES += 1;
            return;
        }
        if addr == &(*q.refs.add(s)).refcnt as *const AtomicUsize as usize {
            if new == old + 1 {
                G_MY_PIN[s] += 1;
                G_MY_VALID[s] = false;
            } else {
                assert!(new + 1 == old && G_MY_PIN[s] > 0, "C06: unpin without a pin");
                G_MY_PIN[s] -= 1;
                if G_MY_PIN[s] == 0 {
                    G_MY_VALID[s] = false;
                }
            }
            return;
        }
        s += 1;
    }
}
