// Layer I: protocol environment (rely) and guarantee log.  Included into
// multiqueue::verif_contracts through mq_env.rs.  See DESIGN.md §3.3.
//
// The function under proof runs on the real queue memory.  Before each of its shared-memory
// operations `env_protocol` may perform up to ENV_BUDGET abstract actions of OTHER protocol
// participants (each an atomic step of the protocol, applied to the same real memory); after each
// of its own writes `guarantee_log` checks that the write is an instance of the guarantee relation.
// Own-handle exclusivity (nobody else uses MY handle) is what `!Sync` (C19) licenses.

// action kinds (bits in ENV_ENABLED, indices in ENV_TAKEN)
pub const A_CLAIM: u32 = 0; // another sender claims the next count (head CAS)
pub const A_PUBLISH: u32 = 1; // a claimed slot gets its value and tag
pub const A_CONSUME: u32 = 2; // another consumer advances a stream position (sibling on my stream, or any other stream)
pub const A_PIN: u32 = 3; // a sibling broadcast consumer pins+validates / unpins a slot
pub const A_SENDER: u32 = 4; // another sender handle is cloned / dropped
pub const A_CACHE: u32 = 5; // another sender refreshes the cached tail
pub const A_CONSUMER: u32 = 6; // a sibling consumer handle of my stream is cloned / dropped

// ghost world of the environment
pub static mut G_ME_SENDER: bool = false; // the function under proof runs on a sender handle
pub static mut G_MY_STREAM: usize = usize::MAX; // index of the stream my consumer handle reads (or MAX)
pub static mut G_PENDING: [bool; NMAX] = [false; NMAX]; // slot claimed by an env sender, not yet published
pub static mut G_PEND_COUNT: [usize; NMAX] = [0; NMAX];
pub static mut G_ENV_VPIN: [usize; NMAX] = [0; NMAX]; // validated pins held by env consumers
pub static mut G_MY_PIN: [usize; NMAX] = [0; NMAX]; // my pins
pub static mut G_MY_VALID: [bool; NMAX] = [false; NMAX]; // my pin on that slot passed the position re-check
pub static mut G_PUB_COUNT: [usize; NMAX] = [usize::MAX; NMAX]; // count / value last published in each slot
pub static mut G_PUB_VAL: [usize; NMAX] = [0; NMAX];
// what the function under proof did (guarantee log)
pub static mut G_MY_CLAIMS: usize = 0;
pub static mut G_MY_CLAIM_COUNT: usize = 0;
pub static mut G_MY_COMMITS: usize = 0;
pub static mut G_MY_COMMIT_COUNT: usize = 0;
pub static mut G_MY_COMMIT_VAL: usize = 0;
pub static mut G_MY_COMMIT_PUBLISHED: bool = false;
pub static mut G_MY_TAG_STORES: usize = 0;

unsafe fn env_reset<RW: QueueRW<Pay>>(w: &World<RW>, mpmc: bool, budget: usize, enabled: u32) {
    ENV_Q = &w.q.inner as *const MultiQueue<RW, Pay> as usize;
    ENV_MPMC = mpmc;
    ENV_N = w.a.n;
    ENV_BUDGET = budget;
    ENV_ENABLED = enabled;
    ENV_TAKEN = [0; 8];
    G_ME_SENDER = false;
    G_MY_STREAM = usize::MAX;
    G_MY_CLAIMS = 0;
    G_MY_COMMITS = 0;
    G_MY_TAG_STORES = 0;
    let mut s = 0;
    while s < w.a.n {
        G_PENDING[s] = false;
        G_ENV_VPIN[s] = 0;
        G_MY_PIN[s] = 0;
        G_MY_VALID[s] = false;
        G_PUB_COUNT[s] = if w.a.tag[s] == INITIAL_QUEUE_FLAG { usize::MAX } else { w.a.tag[s] };
        G_PUB_VAL[s] = w.a.val[s];
        s += 1;
    }
}

fn enabled(a: u32) -> bool {
    unsafe { ENV_ENABLED & (1 << a) != 0 }
}

/// One environment turn: up to ENV_BUDGET actions, each chosen by the oracle.
unsafe fn env_protocol<RW: QueueRW<Pay>>(q: *const MultiQueue<RW, Pay>, kind: u8, addr: usize) {
    let q = &*q;
    let n = q.capacity as usize;
    // at most two actions per access point keep the formula small; the budget bounds the total
    let mut turn = 0;
    while turn < 2 {
        if ENV_BUDGET == 0 || !rt::oracle_bool() {
            break;
        }
        let act = rt::oracle_u8() as u32;
        rt::assume(act < 7 && enabled(act));
        let done = match act {
            A_CLAIM => env_claim(q, n),
            A_PUBLISH => env_publish_pending(q, n),
            A_CONSUME => env_consume(q, n),
            A_PIN => env_pin(q, n),
            A_SENDER => env_sender(q),
            A_CACHE => env_cache(q),
            _ => env_consumer(q),
        };
        // an action that is not enabled in this state is not a move
        rt::assume(done);
        ENV_BUDGET -= 1;
        ENV_TAKEN[act as usize] += 1;
        turn += 1;
    }
    // my validating position load (shared broadcast consumer): it will read the position as it is now
    if kind == K_LOAD && G_MY_STREAM != usize::MAX {
        let lv = q.tail.vf_view();
        if G_MY_STREAM < lv.k && addr == my_pos_cell_addr(q) {
            let p = lv.pos[G_MY_STREAM];
            let s = p & (n - 1);
            if G_MY_PIN[s] > 0 && (*q.data.add(s)).wraps.peek() == p {
                G_MY_VALID[s] = true;
            }
        }
    }
}

unsafe fn my_pos_cell_addr<RW: QueueRW<Pay>>(q: &MultiQueue<RW, Pay>) -> usize {
    let lv = q.tail.vf_view();
    // ReaderPos { pos_data: CountedIndex { val, mask } }: the counter cell is the first field
    ReadCursor::vf_pos_cell_of(lv.pos_ptr[G_MY_STREAM])
}

unsafe fn other_writers<RW: QueueRW<Pay>>(q: &MultiQueue<RW, Pay>) -> usize {
    let w = q.writers.peek();
    if G_ME_SENDER {
        w - 1
    } else {
        w
    }
}

unsafe fn true_min<RW: QueueRW<Pay>>(q: &MultiQueue<RW, Pay>) -> (usize, usize) {
    env_min_pos(q)
}

unsafe fn any_pending(n: usize) -> bool {
    let mut s = 0;
    let mut r = false;
    while s < n {
        if G_PENDING[s] {
            r = true;
        }
        s += 1;
    }
    r
}

/// Claim: an env sender takes the next count.  Enabled when an env sender exists, the window has
/// room with respect to the TRUE minimum (a real writer's cached minimum is never ahead of it),
/// and no validated pin protects the slot (a real writer saw the pin count at zero after the
/// positions had moved past the slot, see DESIGN §3.3).
unsafe fn env_claim<RW: QueueRW<Pay>>(q: &MultiQueue<RW, Pay>, n: usize) -> bool {
    if other_writers(q) == 0 {
        return false;
    }
    let head = q.head.vf_peek();
    let (min, k) = true_min(q);
    if k > 0 && head - min >= n {
        return false;
    }
    let s = head & (n - 1);
    if G_ENV_VPIN[s] > 0 || (G_MY_PIN[s] > 0 && G_MY_VALID[s]) || G_PENDING[s] {
        return false;
    }
    G_PENDING[s] = true;
    G_PEND_COUNT[s] = head;
    q.head.vf_poke(head + 1);
    true
}

/// Publish: the env sender that claimed slot s writes its value, then the tag.
unsafe fn env_publish_pending<RW: QueueRW<Pay>>(q: &MultiQueue<RW, Pay>, n: usize) -> bool {
    let s = rt::oracle_usize();
    rt::assume(s < n);
    if !G_PENDING[s] {
        return false;
    }
    let cell = &mut *q.data.add(s);
    let old_tag = cell.wraps.peek();
    let v = rt::oracle_usize();
    if RW::do_drop() && !is_tagged(old_tag) {
        let _old = ptr::read(&cell.val);
        ptr::write(&mut cell.val, Pay::new(v));
    } else {
        ptr::write(&mut cell.val, Pay::new(v));
    }
    cell.wraps.poke(G_PEND_COUNT[s]);
    G_PUB_COUNT[s] = G_PEND_COUNT[s];
    G_PUB_VAL[s] = v;
    G_PENDING[s] = false;
    true
}

/// Consume: another consumer finishes a receive on stream j: position p -> p+1.  Enabled when the
/// value at p is published; on MY stream only when a sibling handle exists.
unsafe fn env_consume<RW: QueueRW<Pay>>(q: &MultiQueue<RW, Pay>, n: usize) -> bool {
    let lv = q.tail.vf_view();
    let j = rt::oracle_usize();
    rt::assume(j < lv.k);
    if j == G_MY_STREAM && ReadCursor::vf_consumers_of_handle(G_MY_READER) < 2 {
        return false;
    }
    let p = lv.pos[j];
    let s = p & (n - 1);
    let cell = &mut *q.data.add(s);
    if cell.wraps.peek() != p {
        return false;
    }
    if !RW::do_drop() {
        // move-out flavour: the sibling takes the instance with it
        if cell.val.ser < pay::MAXSER {
            pay::STATE[cell.val.ser] = 2;
        }
    }
    ReadCursor::vf_set_pos_of(lv.pos_ptr[j], p + 1);
    true
}

/// Pin / unpin by a sibling broadcast consumer of some stream: pin is counted only once validated
/// (position still equal to the slot's count); unpin releases one.
unsafe fn env_pin<RW: QueueRW<Pay>>(q: &MultiQueue<RW, Pay>, n: usize) -> bool {
    if !RW::do_drop() {
        return false;
    }
    let lv = q.tail.vf_view();
    let release = rt::oracle_bool();
    if release {
        let s = rt::oracle_usize();
        rt::assume(s < n);
        if G_ENV_VPIN[s] == 0 {
            return false;
        }
        G_ENV_VPIN[s] -= 1;
        let rc = &(*q.refs.add(s)).refcnt;
        rc.poke(rc.peek() - 1);
        return true;
    }
    let j = rt::oracle_usize();
    rt::assume(j < lv.k);
    let p = lv.pos[j];
    let s = p & (n - 1);
    if (*q.data.add(s)).wraps.peek() != p {
        return false;
    }
    G_ENV_VPIN[s] += 1;
    let rc = &(*q.refs.add(s)).refcnt;
    rc.poke(rc.peek() + 1);
    true
}

/// Another sender handle is cloned (needs a live other sender) or dropped (needs no pending claim
/// of its own: a claim is published inside the same call that made it).
unsafe fn env_sender<RW: QueueRW<Pay>>(q: &MultiQueue<RW, Pay>) -> bool {
    let ow = other_writers(q);
    let up = rt::oracle_bool();
    if up {
        if ow == 0 || ow >= 3 {
            return false;
        }
        q.writers.poke(q.writers.peek() + 1);
    } else {
        // every pending claim needs its sender alive
        let mut pend = 0;
        let mut s = 0;
        while s < q.capacity as usize {
            if G_PENDING[s] {
                pend += 1;
            }
            s += 1;
        }
        if ow == 0 || ow - 1 < pend {
            return false;
        }
        q.writers.poke(q.writers.peek() - 1);
    }
    true
}

/// Another sender refreshes the cached tail to a value between the cache and the true minimum.
unsafe fn env_cache<RW: QueueRW<Pay>>(q: &MultiQueue<RW, Pay>) -> bool {
    if other_writers(q) == 0 {
        return false;
    }
    let (min, _k) = true_min(q);
    let tc = q.tail_cache.peek();
    let v = rt::oracle_usize();
    rt::assume(v >= tc && v <= min);
    q.tail_cache.poke(v);
    true
}

/// A sibling consumer handle of MY stream is cloned / dropped (count stays >= 1 for me, and can
/// only rise when a sibling exists or ... my own handle cannot be cloned by anybody else).
unsafe fn env_consumer<RW: QueueRW<Pay>>(_q: &MultiQueue<RW, Pay>) -> bool {
    if G_MY_STREAM == usize::MAX {
        return false;
    }
    let c = ReadCursor::vf_consumers_of_handle(G_MY_READER);
    let up = rt::oracle_bool();
    if up {
        if c < 2 || c >= 3 {
            return false;
        }
        ReadCursor::vf_set_consumers_of_handle(G_MY_READER, c + 1);
    } else {
        if c < 2 {
            return false;
        }
        ReadCursor::vf_set_consumers_of_handle(G_MY_READER, c - 1);
    }
    true
}

pub static mut G_MY_READER: usize = 0; // address of my Reader handle

/// Guarantee: every shared write of the function under proof must be one of the protocol's actions
/// with its enabling condition true at that instant.
unsafe fn guarantee_log(kind: u8, addr: usize, old: usize, new: usize) {
    if ENV_MPMC {
        guarantee::<MPMC<Pay>>(ENV_Q as *const MultiQueue<MPMC<Pay>, Pay>, kind, addr, old, new);
    } else {
        guarantee::<BCast<Pay>>(ENV_Q as *const MultiQueue<BCast<Pay>, Pay>, kind, addr, old, new);
    }
}

unsafe fn guarantee<RW: QueueRW<Pay>>(q: *const MultiQueue<RW, Pay>, kind: u8, addr: usize, old: usize, new: usize) {
    let q = &*q;
    let n = q.capacity as usize;
    if addr == q.head.vf_cell_addr() {
        // Claim by me
        assert!(G_ME_SENDER, "only a sender writes the claim counter");
        assert!(new == old + 1, "C01/C02: a claim advances the counter by exactly one");
        if kind != K_CAS {
            assert!(other_writers(q) == 0, "C01/C12: plain store to the claim counter while another sender is alive");
        }
        let (min, k) = true_min(q);
        assert!(k == 0 || old - min < n, "C03: claim while N values are unconsumed by the slowest stream (window violated at the claim instant)");
        let s = old & (n - 1);
        assert!(G_ENV_VPIN[s] == 0, "C04: claim of a slot that a consumer holds a validated pin on");
        assert!(!G_PENDING[s], "C01: claim of a slot another sender is still writing");
        G_MY_CLAIMS += 1;
        G_MY_CLAIM_COUNT = old;
        return;
    }
    if addr == &q.tail_cache as *const AtomicUsize as usize {
        let (min, _k) = true_min(q);
        assert!(new <= min, "C03: cached tail ahead of the slowest stream");
        if kind != K_CAS {
            assert!(other_writers(q) == 0, "C03/C12: plain store to the cached tail while another sender is alive");
        }
        return;
    }
    let mut s = 0;
    while s < n {
        if addr == &(*q.data.add(s)).wraps as *const AtomicUsize as usize {
            // Publish by me: only the slot of my claim, only with its count
            assert!(G_MY_CLAIMS > 0 && s == G_MY_CLAIM_COUNT & (n - 1) && new == G_MY_CLAIM_COUNT, "C01/C02: tag store for a slot/count this call did not claim");
            G_PUB_COUNT[s] = new;
            G_PUB_VAL[s] = (*q.data.add(s)).val.val;
            G_MY_TAG_STORES += 1;
            return;
        }
        if addr == &(*q.refs.add(s)).refcnt as *const AtomicUsize as usize {
            if new == old + 1 {
                G_MY_PIN[s] += 1;
                G_MY_VALID[s] = false;
            } else {
                assert!(new + 1 == old && G_MY_PIN[s] > 0, "C06: unpin without a pin");
                G_MY_PIN[s] -= 1;
                if G_MY_PIN[s] == 0 {
                    G_MY_VALID[s] = false;
                }
            }
            return;
        }
        s += 1;
    }
    if G_MY_STREAM != usize::MAX && addr == my_pos_cell_addr(q) {
        // Consume by me
        assert!(new == old + 1, "C01: a commit advances the cursor by exactly one");
        if kind != K_CAS {
            assert!(ReadCursor::vf_consumers_of_handle(G_MY_READER) == 1, "C01/C12: plain store to a cursor that another consumer shares");
        }
        let sl = old & (n - 1);
        G_MY_COMMITS += 1;
        G_MY_COMMIT_COUNT = old;
        G_MY_COMMIT_PUBLISHED = G_PUB_COUNT[sl] == old && (*q.data.add(sl)).wraps.peek() == old;
        G_MY_COMMIT_VAL = G_PUB_VAL[sl];
        return;
    }
}
