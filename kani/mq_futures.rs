// Sequential contracts on the futures layer (S12): Sink::start_send, Stream::poll (x3), the direct
// methods of the futures receivers and their Drop.  Included into multiqueue::verif_contracts.
//
// Tasks: the futures stub's `task::current()` hands out task id 1 (the task under proof); harnesses
// pre-park task 2 on the consumer-side list and task 3 on the producer-side list and read the stub's
// notification ledger.

use self::futures::task as ftask;

pub fn vf_sleep(_d: ::std::time::Duration) {
    unsafe {
        rt::SLEEPS = rt::SLEEPS.wrapping_add(1);
    }
}

// Contract stand-ins for FutWait::fut_wait and FutWait::send_or_park in the QUEUE-level harnesses
// (#[kani::stub]); the real functions are proved against exactly these contracts on a FutWait alone
// (s12w_park_*, s12w_send_or_park_*): fut_wait parks -- returns true -- exactly when the wake-up test is
// false (re-tested under the list lock); send_or_park parks exactly when every attempt was Full and hands
// the message back, any other outcome is returned as is.
pub static mut FWS_CALLS: usize = 0;
pub static mut FWS_PARKED: usize = 0;
pub static mut FWS_SEQ: usize = 0;
pub static mut FWS_AT: usize = 0;
pub static mut FWS_WC: usize = 0;
pub static mut SOP_PARKED: usize = 0;
pub static mut SOP_ATTEMPTS: usize = 0;

pub fn vf_fut_wait_stub(_this: &FutWait, seq: usize, at: &AtomicUsize, wc: &AtomicUsize) -> bool {
    unsafe {
        FWS_CALLS += 1;
        FWS_SEQ = seq;
        FWS_AT = at as *const AtomicUsize as usize;
        FWS_WC = wc as *const AtomicUsize as usize;
        if check(seq, at, wc) {
            false
        } else {
            FWS_PARKED += 1;
            vf_sleep(::std::time::Duration::from_millis(100));
            true
        }
    }
}

pub fn vf_send_or_park_stub<T, F: Fn(T) -> Result<(), TrySendError<T>>>(_this: &FutWait, f: F, val: T) -> Result<(), TrySendError<T>> {
    unsafe {
        SOP_ATTEMPTS += 1;
        match f(val) {
            Err(TrySendError::Full(v)) => {
                SOP_PARKED += 1;
                Err(TrySendError::Full(v))
            }
            v => v,
        }
    }
}

unsafe fn fut_reset() {
    FWS_CALLS = 0;
    FWS_PARKED = 0;
    SOP_PARKED = 0;
    SOP_ATTEMPTS = 0;
    ftask::CURRENT_ID = 1;
    ftask::CURRENT_CALLS = 0;
    ftask::NOTIFIED = [0; 8];
    ftask::NOTIFY_CALLS = 0;
    rt::SLEEPS = 0;
    rt::CONDVAR_WAITS = 0;
    rt::YIELDS = 0;
}

unsafe fn parked_len(f: &FutWait) -> usize {
    f.parked.peek().len()
}

unsafe fn parked_has(f: &FutWait, id: usize) -> usize {
    let q = f.parked.peek();
    let mut c = 0;
    let mut i = 0;
    while i < q.len() {
        if q[i].id == id {
            c += 1;
        }
        i += 1;
    }
    c
}

/// Queue-level futures harnesses keep both wait lists EMPTY and watch the lists' locks instead (the
/// VecDeque/SmallVec drain code over a symbolic queue state exhausts CBMC's memory).  The obligation
/// "every parked task is notified" is split the modular way: here, the caller takes the list's lock
/// (i.e. runs notify / notify_all) AFTER its state change; in the `s12w_*` harnesses, notify /
/// notify_all / park / send_or_park on a FutWait alone drain the list and notify every parked task.
/// Watch slots: 0 = consumer list lock, 1 = producer list lock, 2 = the state cell of the operation.
unsafe fn pre_park(cons: &FutWait, prod: &FutWait) -> (bool, bool) {
    cons.parked.peek().reserve(4);
    prod.parked.peek().reserve(4);
    rt::WATCH_ADDR = [&cons.parked as *const _ as usize, &prod.parked as *const _ as usize, 0, 0];
    rt::WATCH_STAMP = [0; 4];
    rt::WATCH_HITS = [0; 4];
    (true, true)
}

/// the notify path of list `which` (0 consumers, 1 producers) ran after the watched state cell changed
unsafe fn notified_after_change(which: usize) -> bool {
    rt::WATCH_HITS[which] > 0 && rt::WATCH_STAMP[which] > rt::WATCH_STAMP[2]
}

/// Contract of `<&FutInnerSend as Sink>::start_send` (spin counts concrete per harness).
///   no stream left ==> Err(SendError(same instance)); the task is NOT parked (C13)
///   full           ==> Ok(NotReady(same instance)), nothing enqueued, the current task is parked on the
///                      producer list exactly once so that any later receive can wake it (C14, C15)
///   otherwise      ==> Ok(Ready), exactly the ring-level send postcondition, every consumer task that
///                      was parked is notified after the value was published (C14)
///   never          ==> condition-variable wait, sleep
pub unsafe fn s_fut_start_send<RW: QueueRW<Pay>>(n: usize, k: usize, mpmc: bool, sf: usize, sy: usize) {
    let cons = InPlaceArc::new(FutWait::with_spins(sf, sy));
    let prod = InPlaceArc::new(FutWait::with_spins(sf, sy));
    let w = World::<RW>::arbitrary_w(n, k, mpmc, cons.arc(), true);
    let a0 = w.a;
    rt::assume(a0.writers >= 1);
    let uni = rt::oracle_bool();
    rt::assume(!uni || a0.writers == 1);
    let tx = FutInnerSend { writer: mk_send(&w, uni), wait: cons.arc(), prod_wait: prod.arc() };
    fut_reset();
    let (cp, pp) = pre_park(&cons, &prod);
    // state cell of a send: the tag cell of the slot that will be published
    rt::WATCH_ADDR[2] = &(*w.q.data.add(a0.slot_of(a0.head))).wraps as *const AtomicUsize as usize;
    let v: usize = rt::oracle_usize();
    let p = Pay::new(v);
    let pser = p.ser;
    let drops0 = pay::DROPS;
    let clones0 = pay::CLONES;

    let mut txr = &tx;
    let r = txr.start_send(p);

    let a1 = w.observe();
    assert!(rt::CONDVAR_WAITS == 0 && rt::SLEEPS == 0, "C15: start_send never waits inside the call");
    match r {
        Err(SendError(back)) => {
            assert!(a0.k == 0, "C13/C15: the sink reports an error only when every receiver is gone");
            assert!(back.ser == pser && back.val == v && back.is_live(), "C13: the message is handed back intact in the error");
            assert!(SOP_PARKED == 0, "C13: a failed send must not leave the task parked");
            assert!(a1.head == a0.head && same_except_slot(&a0, &a1, usize::MAX));
            mem::forget(back);
        }
        Ok(AsyncSink::NotReady(back)) => {
            assert!(a0.k > 0, "C13: with no receiver left a futures send must resolve to an error, not stay pending");
            assert!(a0.full(), "C15/C03: NotReady although fewer than N values are outstanding");
            assert!(back.ser == pser && back.val == v && back.is_live(), "C15: NotReady must return the identical message");
            assert!(a1.head == a0.head && same_except_slot(&a0, &a1, usize::MAX), "C15: NotReady exactly when nothing was enqueued");
            assert!(SOP_PARKED >= 1, "C14: a sender that got NotReady is parked on the producer list");
            assert!(pay::DROPS == drops0);
            mem::forget(back);
        }
        Ok(AsyncSink::Ready) => {
            assert!(a0.k > 0, "C13: send accepted although no receiver is left");
            post_send::<RW>(&a0, &a1, Ok(()), v, pser, drops0, clones0, mpmc);
            assert!(rt::WATCH_HITS[2] == 1 && notified_after_change(0), "C14: the consumer wait list is notified after the value was published");
            assert!(SOP_PARKED == 0, "C14: an accepted send leaves no stale parked entry for this task");
        }
    }
    let _ = (cp, pp);
    kani_cover!(a0.k > 0 && a0.full(), "full reachable");
    kani_cover!(a0.k > 0 && !a0.full() && cp, "accepted with a parked consumer reachable");
    mem::forget(tx);
    mem::forget(w);
}

#[derive(Clone, Copy, PartialEq)]
pub enum PollKind {
    Shared,   // <&FutInnerRecv as Stream>::poll
    Uni,      // <FutInnerUniRecv as Stream>::poll
    TryRecv,  // FutInnerRecv::try_recv (direct)
    Recv,     // FutInnerRecv::recv (direct)
    UniTry,   // FutInnerUniRecv::try_recv (direct)
    UniRecv,  // FutInnerUniRecv::recv (direct)
}

/// Contract of the receive entry points of the futures receivers on stream i.
///   value available   ==> it is returned (Ready(Some) / Ok), it is payload[cursor], the cursor advances by
///                         one, and every parked producer task is notified afterwards (space was freed: C14)
///   drained, no sender ==> Ready(None) / Disconnected / Err, nothing changes (and therefore again next time)
///   drained, sender alive ==> poll: NotReady with the current task parked exactly once on the consumer
///                         list, no condition-variable wait, no spinning beyond the configured counts;
///                         try_recv: Empty; recv: must behave like the plain blocking receive (never panic)
pub unsafe fn s_fut_recv<RW: QueueRW<Pay>>(n: usize, k: usize, mpmc: bool, sf: usize, sy: usize, kind: PollKind) {
    let cons = InPlaceArc::new(FutWait::with_spins(sf, sy));
    let prod = InPlaceArc::new(FutWait::with_spins(sf, sy));
    let w = World::<RW>::arbitrary_w(n, k, mpmc, cons.arc(), true);
    let a0 = w.a;
    let i: usize = rt::oracle_usize();
    rt::assume(i < a0.k);
    let uni = kind == PollKind::Uni || kind == PollKind::UniTry || kind == PollKind::UniRecv;
    if uni {
        rt::assume(a0.ncons[i] == 1);
    }
    let blocking = kind == PollKind::Recv || kind == PollKind::UniRecv;
    if blocking {
        // the blocking direct methods are exercised where they do not have to wait: the waiting branch is
        // a separate obligation (s_fut_recv_blocks) because a futures queue has no strategy to block with
        rt::assume(a0.pos[i] < a0.head || a0.writers == 0);
    }
    fut_reset();
    let (cp, pp) = pre_park(&cons, &prod);
    // state cell of a receive: the stream's cursor
    rt::WATCH_ADDR[2] = match &w.rd[i] {
        Some(r) => r.vf_pos_cell_addr(),
        None => unreachable!(),
    };
    let cur = a0.pos[i];
    let slot = a0.slot_of(cur);
    VIEW_CALLS = 0;
    let mut got: Option<usize> = None;
    let mut ended = false;
    let mut pending = false;
    if uni {
        let mut rx = FutInnerUniRecv { reader: mk_recv(&w, i), wait: cons.arc(), prod_wait: prod.arc(), op: view_fn as fn(&Pay) -> usize };
        match kind {
            PollKind::Uni => match rx.poll() {
                Ok(Async::Ready(Some(x))) => got = Some(x),
                Ok(Async::Ready(None)) => ended = true,
                Ok(Async::NotReady) => pending = true,
                Err(()) => assert!(false, "C15: poll never fails"),
            },
            PollKind::UniTry => match rx.try_recv() {
                Ok(x) => got = Some(x),
                Err(TryRecvError::Empty) => pending = true,
                Err(TryRecvError::Disconnected) => ended = true,
            },
            _ => match rx.recv() {
                Ok(x) => got = Some(x),
                Err(RecvError) => ended = true,
            },
        }
        mem::forget(rx);
    } else {
        let rx = FutInnerRecv { reader: mk_recv(&w, i), wait: cons.arc(), prod_wait: prod.arc() };
        match kind {
            PollKind::Shared => {
                let mut rxr = &rx;
                match rxr.poll() {
                    Ok(Async::Ready(Some(p))) => {
                        got = Some(p.val);
                        assert!(p.is_live(), "C04: delivered value must be live");
                        mem::forget(p);
                    }
                    Ok(Async::Ready(None)) => ended = true,
                    Ok(Async::NotReady) => pending = true,
                    Err(()) => assert!(false, "C15: poll never fails"),
                }
            }
            PollKind::TryRecv => match rx.try_recv() {
                Ok(p) => {
                    got = Some(p.val);
                    mem::forget(p);
                }
                Err(TryRecvError::Empty) => pending = true,
                Err(TryRecvError::Disconnected) => ended = true,
            },
            _ => match rx.recv() {
                Ok(p) => {
                    got = Some(p.val);
                    mem::forget(p);
                }
                Err(RecvError) => ended = true,
            },
        }
        mem::forget(rx);
    }
    let a1 = w.observe();
    assert!(pay::DOUBLE_DROP == 0 && pay::DROP_OF_UNCREATED == 0, "C05: double drop / drop of garbage");
    assert!(rt::CONDVAR_WAITS == 0, "C15: the futures receive paths never block on a condition variable");
    if cur < a0.head {
        assert!(got == Some(a0.val[slot]), "C01/C02/C15: the stream yields payload[cursor] when a value is available");
        assert!(a1.pos[i] == cur + 1, "C01: cursor advances by exactly one");
        assert!(rt::WATCH_HITS[2] == 1 && notified_after_change(1), "C14: space freed by ANY kind of receive notifies the producer wait list (after the cursor moved)");
        assert!(rt::SLEEPS == 0, "C15: no sleep on the path that delivers a value");
    } else if a0.writers == 0 {
        assert!(ended && got.is_none(), "C07/C15: None / Disconnected only at the end of the stream");
        assert!(a1.pos[i] == cur && a1.head == a0.head, "C07: reporting the end changes nothing, so it is reported again on every later call");
    } else {
        assert!(pending && got.is_none() && !ended, "C15: drained with a live sender: NotReady / Empty, never the end");
        assert!(a1.pos[i] == cur);
        if !mpmc && a0.ncons[i] >= 2 && !uni {
            assert!(rt::WATCH_HITS[1] >= 1, "C14: a receive attempt on a shared broadcast stream that ends without a value still notifies the producer wait list (it may have held a pin that a parked sender is waiting for)");
        }
        if kind == PollKind::Shared || kind == PollKind::Uni {
            assert!(FWS_PARKED >= 1, "C14: a stream that got NotReady is parked on the consumer list");
            assert!(FWS_SEQ == cur && FWS_AT == &(*w.q.data.add(slot)).wraps as *const AtomicUsize as usize && FWS_WC == &w.q.writers as *const AtomicUsize as usize, "C08/C14: the task parks on the tag cell of the slot where its cursor's value will be published");
            let _ = (cp, pp);
        } else {
            assert!(FWS_CALLS == 0 && rt::SLEEPS == 0, "C18: the direct try_recv never parks or sleeps");
        }
    }
    if uni {
        assert!(VIEW_CALLS == if got.is_some() { 1 } else { 0 }, "C01: the stored closure runs exactly once per delivered value");
    }
    kani_cover!(cur < a0.head && pp, "value with a parked producer reachable");
    kani_cover!(cur == a0.head && a0.writers == 0, "end reachable");
    kani_cover!(cur == a0.head && a0.writers > 0 && a0.tag[slot] == INITIAL_QUEUE_FLAG, "drained on a never-written slot reachable");
    kani_cover!(cur == a0.head && a0.writers > 0 && a0.tag[slot] != INITIAL_QUEUE_FLAG, "drained on a wrapped slot reachable");
    mem::forget(w);
}

/// The direct blocking `recv` of a futures receiver on a drained stream with a live sender: it must
/// behave like the plain blocking receive (wait until a value or the end is there), in particular it
/// must not panic.  Run under the scripted wake-up (a value is published / all senders leave as soon
/// as the receiver starts waiting, by whatever means it waits).
pub unsafe fn s_fut_recv_blocks<RW: QueueRW<Pay>>(n: usize, k: usize, mpmc: bool, uni: bool) {
    let cons = InPlaceArc::new(FutWait::with_spins(1, 1));
    let prod = InPlaceArc::new(FutWait::with_spins(1, 1));
    let w = World::<RW>::arbitrary_w(n, k, mpmc, cons.arc(), true);
    let a0 = w.a;
    let i: usize = rt::oracle_usize();
    rt::assume(i < a0.k && a0.pos[i] == a0.head && a0.writers > 0);
    if uni {
        rt::assume(a0.ncons[i] == 1);
    }
    fut_reset();
    ENV_WAKE_DID = 0;
    ENV_Q = &w.q.inner as *const MultiQueue<RW, Pay> as usize;
    ENV_MPMC = mpmc;
    let mut got: Option<usize> = None;
    let mut ended = false;
    if uni {
        let mut rx = FutInnerUniRecv { reader: mk_recv(&w, i), wait: cons.arc(), prod_wait: prod.arc(), op: view_fn as fn(&Pay) -> usize };
        // the wake-up happens at the first yield / lock / wait the receiver performs while it has nothing
        rt::ENV_MODE = ENV_WAKE_ON_ANY;
        match rx.recv() {
            Ok(x) => got = Some(x),
            Err(RecvError) => ended = true,
        }
        rt::ENV_MODE = ENV_OFF;
        mem::forget(rx);
    } else {
        let rx = FutInnerRecv { reader: mk_recv(&w, i), wait: cons.arc(), prod_wait: prod.arc() };
        rt::ENV_MODE = ENV_WAKE_ON_ANY;
        match rx.recv() {
            Ok(p) => {
                got = Some(p.val);
                mem::forget(p);
            }
            Err(RecvError) => ended = true,
        }
        mem::forget(rx);
    }
    rt::ENV_MODE = ENV_OFF;
    if ENV_WAKE_DID == 1 {
        assert!(got == Some(ENV_WAKE_VAL), "C15/C08: the direct recv returns the value that arrived");
    } else {
        assert!(ENV_WAKE_DID == 2 && ended, "C15/C07: the direct recv reports the end once every sender is gone");
    }
    mem::forget(w);
}

/// Drop of a futures receiver on stream i: the plain drop contract (see s_drop_recv) plus: every
/// parked producer task is notified after the stream was removed / the consumer count dropped
/// (a send refused because of this stream can now succeed, or must now fail as disconnected: C13, C14).
pub unsafe fn s_fut_drop_recv<RW: QueueRW<Pay>>(n: usize, k: usize, mpmc: bool, uni: bool) {
    let cons = InPlaceArc::new(FutWait::with_spins(0, 0));
    let prod = InPlaceArc::new(FutWait::with_spins(0, 0));
    let w = World::<RW>::arbitrary_w(n, k, mpmc, cons.arc(), true);
    let a0 = w.a;
    let i: usize = rt::oracle_usize();
    rt::assume(i < a0.k);
    if uni {
        rt::assume(a0.ncons[i] == 1);
    }
    fut_reset();
    let (_cp, _pp) = pre_park(&cons, &prod);
    // state cell of a receiver drop: the stream's consumer count
    rt::WATCH_ADDR[2] = match &w.rd[i] {
        Some(r) => r.vf_consumers_addr(),
        None => unreachable!(),
    };
    let last = a0.ncons[i] == 1;
    if uni {
        let rx = FutInnerUniRecv { reader: mk_recv(&w, i), wait: cons.arc(), prod_wait: prod.arc(), op: view_fn as fn(&Pay) -> usize };
        drop(rx);
    } else {
        let rx = FutInnerRecv { reader: mk_recv(&w, i), wait: cons.arc(), prod_wait: prod.arc() };
        drop(rx);
    }
    let lv1 = w.q.tail.vf_view();
    assert!(lv1.k == if last { a0.k - 1 } else { a0.k }, "C11: the stream leaves the list exactly when its last handle goes");
    assert!((w.q.manager.vf_signal_bits() & 2 != 0) == (last && a0.k == 1), "C13: the no-reader flag is raised exactly when the last stream is removed");
    assert!(notified_after_change(1), "C11/C13/C14: dropping a futures receiver notifies the producer wait list (after the consumer left)");
    mem::forget(w);
}

/// Drop of a futures sender: the plain drop contract plus every parked consumer task is notified
/// (the end of the stream may have been reached: C07, C14).
pub unsafe fn s_fut_drop_send<RW: QueueRW<Pay>>(n: usize, k: usize, mpmc: bool) {
    let cons = InPlaceArc::new(FutWait::with_spins(0, 0));
    let prod = InPlaceArc::new(FutWait::with_spins(0, 0));
    let w = World::<RW>::arbitrary_w(n, k, mpmc, cons.arc(), true);
    let a0 = w.a;
    rt::assume(a0.writers >= 1);
    let uni = rt::oracle_bool();
    rt::assume(!uni || a0.writers == 1);
    let tx = FutInnerSend { writer: mk_send(&w, uni), wait: cons.arc(), prod_wait: prod.arc() };
    fut_reset();
    let (_cp, _pp) = pre_park(&cons, &prod);
    rt::WATCH_ADDR[2] = &w.q.writers as *const AtomicUsize as usize;
    drop(tx);
    assert!(w.q.writers.peek() == a0.writers - 1, "C07: dropping a sender unregisters exactly one sender");
    assert!(notified_after_change(0), "C07/C14: dropping a sender notifies the consumer wait list (after the count dropped)");
    mem::forget(w);
}

// ---------------------------------------------------------------------------------------------
// S12w: FutWait on its own (the callee contracts the queue-level harnesses rely on)

/// notify / notify_all: every parked task is notified exactly once and the list is left empty.
pub unsafe fn s_futwait_notify(kpark: usize, all: bool) {
    let f = FutWait::with_spins(0, 0);
    fut_reset();
    let mut i = 0;
    while i < kpark {
        f.parked.peek().push_back(ftask::Task { id: if i < 6 { i + 2 } else { 7 } });
        i += 1;
    }
    if all {
        f.notify_all();
    } else {
        Wait::notify(&f);
    }
    assert!(parked_len(&f) == 0, "C14: notify leaves a task parked");
    assert!(ftask::NOTIFY_CALLS == kpark, "C14: every parked task is notified exactly once");
    let mut j = 0;
    while j < kpark && j < 5 {
        assert!(ftask::NOTIFIED[j + 2] == 1, "C14: a parked task was not notified");
        j += 1;
    }
    assert!(!f.parked.is_held(), "the list lock is released");
    assert!(f.needs_notify());
}


/// fut_wait (= spin, then park): returns "parked" exactly when the wake-up test stayed false; the task
/// is pushed exactly once; if the awaited value arrives after the spinning but before the list lock is
/// taken (the environment publishes it at the lock), the test made UNDER the lock sees it and the task
/// is not parked (no lost wake-up).
pub unsafe fn s_futwait_park(sf: usize, sy: usize) {
    let f = FutWait::with_spins(sf, sy);
    fut_reset();
    let seq: usize = rt::oracle_usize();
    rt::assume(seq < (1usize << 62));
    let tag: usize = rt::oracle_usize();
    let wcv: usize = rt::oracle_usize();
    rt::assume(wcv <= 2);
    let at = AtomicUsize::new(tag);
    let wc = AtomicUsize::new(wcv);
    FW_FLIP_AT_LOCK = rt::oracle_bool();
    FW_CELL = &at as *const AtomicUsize as usize;
    FW_SEQ = seq;
    let ready0 = crate::wait::BusyWait::vf_spec_check(seq, tag, wcv);
    rt::ENV_MODE = 102;
    let r = f.fut_wait(seq, &at, &wc);
    rt::ENV_MODE = ENV_OFF;
    if ready0 {
        assert!(!r && parked_len(&f) == 0 && rt::SLEEPS == 0, "C14/C15: the condition already holds: not parked, no sleep");
    } else if FW_FLIP_AT_LOCK {
        assert!(!r && parked_len(&f) == 0, "C14: the wake-up test must be repeated under the list lock before parking (lost wake-up)");
    } else {
        assert!(r && parked_has(&f, 1) >= 1, "C14: a task that cannot progress is parked");
    }
    assert!(!f.parked.is_held());
    assert!(rt::CONDVAR_WAITS == 0, "C15: fut_wait never blocks on a condition variable");
}

/// send_or_park with a scripted try_send: parks exactly when every attempt (including the one made
/// under the list lock) reported Full; hands the identical message back; a success or a Disconnected at
/// any attempt is returned as is and nothing is parked.
pub unsafe fn s_futwait_send_or_park(sf: usize, sy: usize) {
    let f = FutWait::with_spins(sf, sy);
    fut_reset();
    let succeed_at: usize = rt::oracle_usize(); // attempt index (0-based) at which the send is accepted; large = never
    let disc = rt::oracle_bool();
    let attempts = std::cell::Cell::new(0usize);
    let under_lock = std::cell::Cell::new(false);
    let r = f.send_or_park(
        |m: usize| {
            let k = attempts.get();
            attempts.set(k + 1);
            under_lock.set(f.parked.is_held());
            if k >= succeed_at {
                if disc {
                    Err(TrySendError::Disconnected(m))
                } else {
                    Ok(())
                }
            } else {
                Err(TrySendError::Full(m))
            }
        },
        77usize,
    );
    let total = sf + sy + 1;
    match r {
        Ok(()) => assert!(succeed_at < total && !disc && attempts.get() == succeed_at + 1 && parked_len(&f) == 0, "C15: an accepted send is reported at once and nothing is parked"),
        Err(TrySendError::Disconnected(m)) => assert!(m == 77 && succeed_at < total && disc && parked_len(&f) == 0, "C13: a disconnected send is reported at once and nothing is parked"),
        Err(TrySendError::Full(m)) => {
            assert!(m == 77, "C15: the identical message is handed back");
            assert!(succeed_at >= total && attempts.get() == total, "C15: no more attempts than spins + 1");
            assert!(under_lock.get(), "C14: the last attempt must be made while holding the list lock (lost wake-up)");
            assert!(parked_has(&f, 1) >= 1, "C14: the task is parked");
        }
    }
    assert!(!f.parked.is_held());
}

/// FutInnerRecv::into_single on stream i: succeeds exactly when this is the only handle of its stream;
/// either way the receiver that comes back (converted or handed back) reads the same stream at the same
/// position with the same consumer count, and keeps BOTH wait lists in their roles: the consumers'
/// list (notified by senders) and the producers' list (notified by receives).
pub unsafe fn s_fut_into_single<RW: QueueRW<Pay>>(n: usize, k: usize, mpmc: bool) {
    let cons = InPlaceArc::new(FutWait::with_spins(0, 0));
    let prod = InPlaceArc::new(FutWait::with_spins(0, 0));
    let w = World::<RW>::arbitrary_w(n, k, mpmc, cons.arc(), true);
    let a0 = w.a;
    let i: usize = rt::oracle_usize();
    rt::assume(i < a0.k);
    let rx = FutInnerRecv { reader: mk_recv(&w, i), wait: cons.arc(), prod_wait: prod.arc() };
    let posptr = rx.reader.reader.vf_pos_ptr();
    let cons_addr = &cons.inner as *const FutWait as usize;
    let prod_addr = &prod.inner as *const FutWait as usize;
    let sole = a0.ncons[i] == 1;
    match rx.into_single(view_fn as fn(&Pay) -> usize) {
        Ok(u) => {
            assert!(sole, "C09/C12: into_single succeeded although another consumer shares the stream");
            assert!(u.reader.reader.vf_pos_ptr() == posptr && u.reader.reader.vf_consumers() == 1 && u.reader.reader.vf_pos() == a0.pos[i], "C01: the converted receiver continues the same stream");
            assert!(&*u.wait as *const FutWait as usize == cons_addr && &*u.prod_wait as *const FutWait as usize == prod_addr, "C14/C15: the converted receiver keeps the consumer and producer wait lists in their roles");
            mem::forget(u);
        }
        Err((_op, r)) => {
            assert!(!sole, "C09/C12: into_single refused although this is the only consumer of the stream");
            assert!(r.reader.reader.vf_pos_ptr() == posptr && r.reader.reader.vf_consumers() == a0.ncons[i] && r.reader.reader.vf_pos() == a0.pos[i], "C01: the handed-back receiver continues the same stream");
            assert!(&*r.wait as *const FutWait as usize == cons_addr && &*r.prod_wait as *const FutWait as usize == prod_addr, "C14/C15: the handed-back receiver keeps the consumer and producer wait lists in their roles");
            mem::forget(r);
        }
    }
    let lv1 = w.q.tail.vf_view();
    assert!(lv1.k == a0.k, "C11: a conversion neither adds nor removes a stream");
    mem::forget(w);
}

/// FutInnerUniRecv::into_multi / add_stream_with: the result reads a stream at the parent's position and
/// keeps both wait lists in their roles.
pub unsafe fn s_fut_uni_convert<RW: QueueRW<Pay>>(n: usize, k: usize, into_multi: bool) {
    let cons = InPlaceArc::new(FutWait::with_spins(0, 0));
    let prod = InPlaceArc::new(FutWait::with_spins(0, 0));
    let w = World::<RW>::arbitrary_w(n, k, false, cons.arc(), true);
    let a0 = w.a;
    let i: usize = rt::oracle_usize();
    rt::assume(i < a0.k && a0.ncons[i] == 1);
    let u = FutInnerUniRecv { reader: mk_recv(&w, i), wait: cons.arc(), prod_wait: prod.arc(), op: view_fn as fn(&Pay) -> usize };
    let cons_addr = &cons.inner as *const FutWait as usize;
    let prod_addr = &prod.inner as *const FutWait as usize;
    if into_multi {
        let r = u.into_multi();
        assert!(r.reader.reader.vf_pos() == a0.pos[i] && r.reader.reader.vf_consumers() == 1, "C01/C02/C03/C10: the converted receiver continues at the same position");
        assert!(&*r.wait as *const FutWait as usize == cons_addr && &*r.prod_wait as *const FutWait as usize == prod_addr, "C14/C15: the converted receiver keeps the consumer and producer wait lists in their roles");
        let lv1 = w.q.tail.vf_view();
        assert!(lv1.k == a0.k, "C11: into_multi replaces the stream (one added, the old one removed)");
        mem::forget(r);
    } else {
        let r = u.add_stream_with(view_fn as fn(&Pay) -> usize);
        assert!(r.reader.reader.vf_pos() == a0.pos[i] && r.reader.reader.vf_consumers() == 1, "C01/C02/C03/C10: the new stream starts at the parent's position");
        assert!(&*r.wait as *const FutWait as usize == cons_addr && &*r.prod_wait as *const FutWait as usize == prod_addr, "C14/C15: the new receiver keeps the consumer and producer wait lists in their roles");
        let lv1 = w.q.tail.vf_view();
        assert!(lv1.k == a0.k + 1, "C10: exactly one stream is added");
        mem::forget(r);
        mem::forget(u);
    }
    mem::forget(w);
}
