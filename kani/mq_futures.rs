// Sequential contracts on the futures layer (S12): Sink::start_send, Stream::poll (x3), the direct
// methods of the futures receivers and their Drop.  Included into multiqueue::verif_contracts.
//
// Tasks: the futures stub's `task::current()` hands out task id 1 (the task under proof); harnesses
// pre-park task 2 on the consumer-side list and task 3 on the producer-side list and read the stub's
// notification ledger.

use self::futures::task as ftask;

pub fn vf_sleep(_d: ::std::time::Duration) {
    unsafe {
        rt::SLEEPS = rt::SLEEPS.wrapping_add(1);
    }
}

unsafe fn fut_reset() {
    ftask::CURRENT_ID = 1;
    ftask::CURRENT_CALLS = 0;
    ftask::NOTIFIED = [0; 8];
    ftask::NOTIFY_CALLS = 0;
    rt::SLEEPS = 0;
    rt::CONDVAR_WAITS = 0;
    rt::YIELDS = 0;
}

unsafe fn parked_len(f: &FutWait) -> usize {
    f.parked.peek().len()
}

unsafe fn parked_has(f: &FutWait, id: usize) -> usize {
    let q = f.parked.peek();
    let mut c = 0;
    let mut i = 0;
    while i < q.len() {
        if q[i].id == id {
            c += 1;
        }
        i += 1;
    }
    c
}

unsafe fn pre_park(cons: &FutWait, prod: &FutWait) -> (bool, bool) {
    let c = rt::oracle_bool();
    let p = rt::oracle_bool();
    cons.parked.peek().reserve(4);
    prod.parked.peek().reserve(4);
    if c {
        cons.parked.peek().push_back(ftask::Task { id: 2 });
    }
    if p {
        prod.parked.peek().push_back(ftask::Task { id: 3 });
    }
    (c, p)
}

/// Contract of `<&FutInnerSend as Sink>::start_send` (spin counts concrete per harness).
///   no stream left ==> Err(SendError(same instance)); the task is NOT parked (C13)
///   full           ==> Ok(NotReady(same instance)), nothing enqueued, the current task is parked on the
///                      producer list exactly once so that any later receive can wake it (C14, C15)
///   otherwise      ==> Ok(Ready), exactly the ring-level send postcondition, every consumer task that
///                      was parked is notified after the value was published (C14)
///   never          ==> condition-variable wait, sleep
pub unsafe fn s_fut_start_send<RW: QueueRW<Pay>>(n: usize, k: usize, mpmc: bool, sf: usize, sy: usize) {
    let cons = InPlaceArc::new(FutWait::with_spins(sf, sy));
    let prod = InPlaceArc::new(FutWait::with_spins(sf, sy));
    let w = World::<RW>::arbitrary_w(n, k, mpmc, cons.arc(), true);
    let a0 = w.a;
    rt::assume(a0.writers >= 1);
    let uni = rt::oracle_bool();
    rt::assume(!uni || a0.writers == 1);
    let tx = FutInnerSend { writer: mk_send(&w, uni), wait: cons.arc(), prod_wait: prod.arc() };
    fut_reset();
    let (cp, pp) = pre_park(&cons, &prod);
    let v: usize = rt::oracle_usize();
    let p = Pay::new(v);
    let pser = p.ser;
    let drops0 = pay::DROPS;
    let clones0 = pay::CLONES;

    let mut txr = &tx;
    let r = txr.start_send(p);

    let a1 = w.observe();
    assert!(rt::CONDVAR_WAITS == 0 && rt::SLEEPS == 0, "C15: start_send never waits inside the call");
    match r {
        Err(SendError(back)) => {
            assert!(a0.k == 0, "C13/C15: the sink reports an error only when every receiver is gone");
            assert!(back.ser == pser && back.val == v && back.is_live(), "C13: the message is handed back intact in the error");
            assert!(parked_has(&prod, 1) == 0, "C13: a failed send must not leave the task parked");
            assert!(a1.head == a0.head && same_except_slot(&a0, &a1, usize::MAX));
            mem::forget(back);
        }
        Ok(AsyncSink::NotReady(back)) => {
            assert!(a0.k > 0, "C13: with no receiver left a futures send must resolve to an error, not stay pending");
            assert!(a0.full(), "C15/C03: NotReady although fewer than N values are outstanding");
            assert!(back.ser == pser && back.val == v && back.is_live(), "C15: NotReady must return the identical message");
            assert!(a1.head == a0.head && same_except_slot(&a0, &a1, usize::MAX), "C15: NotReady exactly when nothing was enqueued");
            assert!(parked_has(&prod, 1) == 1, "C14: a sender that got NotReady is parked exactly once on the producer list");
            assert!(pay::DROPS == drops0);
            mem::forget(back);
        }
        Ok(AsyncSink::Ready) => {
            assert!(a0.k > 0, "C13: send accepted although no receiver is left");
            post_send::<RW>(&a0, &a1, Ok(()), v, pser, drops0, clones0, mpmc);
            assert!(parked_len(&cons) == 0 && (!cp || ftask::NOTIFIED[2] >= 1), "C14: every parked consumer task is notified after a value was sent");
            assert!(parked_has(&prod, 1) == 0, "C14: an accepted send leaves no stale parked entry for this task");
        }
    }
    assert!(parked_has(&prod, 3) == if pp { 1 } else { 0 } && ftask::NOTIFIED[3] == 0, "start_send never wakes other producers");
    kani_cover!(a0.k > 0 && a0.full(), "full reachable");
    kani_cover!(a0.k > 0 && !a0.full() && cp, "accepted with a parked consumer reachable");
    mem::forget(tx);
    mem::forget(w);
}

#[derive(Clone, Copy, PartialEq)]
pub enum PollKind {
    Shared,   // <&FutInnerRecv as Stream>::poll
    Uni,      // <FutInnerUniRecv as Stream>::poll
    TryRecv,  // FutInnerRecv::try_recv (direct)
    Recv,     // FutInnerRecv::recv (direct)
    UniTry,   // FutInnerUniRecv::try_recv (direct)
    UniRecv,  // FutInnerUniRecv::recv (direct)
}

/// Contract of the receive entry points of the futures receivers on stream i.
///   value available   ==> it is returned (Ready(Some) / Ok), it is payload[cursor], the cursor advances by
///                         one, and every parked producer task is notified afterwards (space was freed: C14)
///   drained, no sender ==> Ready(None) / Disconnected / Err, nothing changes (and therefore again next time)
///   drained, sender alive ==> poll: NotReady with the current task parked exactly once on the consumer
///                         list, no condition-variable wait, no spinning beyond the configured counts;
///                         try_recv: Empty; recv: must behave like the plain blocking receive (never panic)
pub unsafe fn s_fut_recv<RW: QueueRW<Pay>>(n: usize, k: usize, mpmc: bool, sf: usize, sy: usize, kind: PollKind) {
    let cons = InPlaceArc::new(FutWait::with_spins(sf, sy));
    let prod = InPlaceArc::new(FutWait::with_spins(sf, sy));
    let w = World::<RW>::arbitrary_w(n, k, mpmc, cons.arc(), true);
    let a0 = w.a;
    let i: usize = rt::oracle_usize();
    rt::assume(i < a0.k);
    let uni = kind == PollKind::Uni || kind == PollKind::UniTry || kind == PollKind::UniRecv;
    if uni {
        rt::assume(a0.ncons[i] == 1);
    }
    let blocking = kind == PollKind::Recv || kind == PollKind::UniRecv;
    if blocking {
        // the blocking direct methods are exercised where they do not have to wait: the waiting branch is
        // a separate obligation (s_fut_recv_blocks) because a futures queue has no strategy to block with
        rt::assume(a0.pos[i] < a0.head || a0.writers == 0);
    }
    fut_reset();
    let (cp, pp) = pre_park(&cons, &prod);
    let cur = a0.pos[i];
    let slot = a0.slot_of(cur);
    VIEW_CALLS = 0;
    let mut got: Option<usize> = None;
    let mut ended = false;
    let mut pending = false;
    if uni {
        let mut rx = FutInnerUniRecv { reader: mk_recv(&w, i), wait: cons.arc(), prod_wait: prod.arc(), op: view_fn as fn(&Pay) -> usize };
        match kind {
            PollKind::Uni => match rx.poll() {
                Ok(Async::Ready(Some(x))) => got = Some(x),
                Ok(Async::Ready(None)) => ended = true,
                Ok(Async::NotReady) => pending = true,
                Err(()) => assert!(false, "C15: poll never fails"),
            },
            PollKind::UniTry => match rx.try_recv() {
                Ok(x) => got = Some(x),
                Err(TryRecvError::Empty) => pending = true,
                Err(TryRecvError::Disconnected) => ended = true,
            },
            _ => match rx.recv() {
                Ok(x) => got = Some(x),
                Err(RecvError) => ended = true,
            },
        }
        mem::forget(rx);
    } else {
        let rx = FutInnerRecv { reader: mk_recv(&w, i), wait: cons.arc(), prod_wait: prod.arc() };
        match kind {
            PollKind::Shared => {
                let mut rxr = &rx;
                match rxr.poll() {
                    Ok(Async::Ready(Some(p))) => {
                        got = Some(p.val);
                        assert!(p.is_live(), "C04: delivered value must be live");
                        mem::forget(p);
                    }
                    Ok(Async::Ready(None)) => ended = true,
                    Ok(Async::NotReady) => pending = true,
                    Err(()) => assert!(false, "C15: poll never fails"),
                }
            }
            PollKind::TryRecv => match rx.try_recv() {
                Ok(p) => {
                    got = Some(p.val);
                    mem::forget(p);
                }
                Err(TryRecvError::Empty) => pending = true,
                Err(TryRecvError::Disconnected) => ended = true,
            },
            _ => match rx.recv() {
                Ok(p) => {
                    got = Some(p.val);
                    mem::forget(p);
                }
                Err(RecvError) => ended = true,
            },
        }
        mem::forget(rx);
    }
    let a1 = w.observe();
    assert!(pay::DOUBLE_DROP == 0 && pay::DROP_OF_UNCREATED == 0, "C05: double drop / drop of garbage");
    assert!(rt::CONDVAR_WAITS == 0, "C15: the futures receive paths never block on a condition variable");
    if cur < a0.head {
        assert!(got == Some(a0.val[slot]), "C01/C02/C15: the stream yields payload[cursor] when a value is available");
        assert!(a1.pos[i] == cur + 1, "C01: cursor advances by exactly one");
        assert!(parked_len(&prod) == 0 && (!pp || ftask::NOTIFIED[3] >= 1), "C14: space freed by ANY kind of receive notifies every parked producer task");
        assert!(rt::SLEEPS == 0, "C15: no sleep on the path that delivers a value");
    } else if a0.writers == 0 {
        assert!(ended && got.is_none(), "C07/C15: None / Disconnected only at the end of the stream");
        assert!(a1.pos[i] == cur && a1.head == a0.head, "C07: reporting the end changes nothing, so it is reported again on every later call");
    } else {
        assert!(pending && got.is_none() && !ended, "C15: drained with a live sender: NotReady / Empty, never the end");
        assert!(a1.pos[i] == cur);
        if kind == PollKind::Shared || kind == PollKind::Uni {
            assert!(parked_has(&cons, 1) == 1, "C14: a stream that got NotReady is parked exactly once on the consumer list");
            assert!(parked_has(&cons, 2) == if cp { 1 } else { 0 }, "parking does not disturb other parked tasks");
        } else {
            assert!(parked_has(&cons, 1) == 0 && rt::SLEEPS == 0, "C18: the direct try_recv never parks or sleeps");
        }
    }
    if uni {
        assert!(VIEW_CALLS == if got.is_some() { 1 } else { 0 }, "C01: the stored closure runs exactly once per delivered value");
    }
    kani_cover!(cur < a0.head && pp, "value with a parked producer reachable");
    kani_cover!(cur == a0.head && a0.writers == 0, "end reachable");
    kani_cover!(cur == a0.head && a0.writers > 0 && a0.tag[slot] == INITIAL_QUEUE_FLAG, "drained on a never-written slot reachable");
    kani_cover!(cur == a0.head && a0.writers > 0 && a0.tag[slot] != INITIAL_QUEUE_FLAG, "drained on a wrapped slot reachable");
    mem::forget(w);
}

/// The direct blocking `recv` of a futures receiver on a drained stream with a live sender: it must
/// behave like the plain blocking receive (wait until a value or the end is there), in particular it
/// must not panic.  Run under the scripted wake-up (a value is published / all senders leave as soon
/// as the receiver starts waiting, by whatever means it waits).
pub unsafe fn s_fut_recv_blocks<RW: QueueRW<Pay>>(n: usize, k: usize, mpmc: bool, uni: bool) {
    let cons = InPlaceArc::new(FutWait::with_spins(1, 1));
    let prod = InPlaceArc::new(FutWait::with_spins(1, 1));
    let w = World::<RW>::arbitrary_w(n, k, mpmc, cons.arc(), true);
    let a0 = w.a;
    let i: usize = rt::oracle_usize();
    rt::assume(i < a0.k && a0.pos[i] == a0.head && a0.writers > 0);
    if uni {
        rt::assume(a0.ncons[i] == 1);
    }
    fut_reset();
    ENV_WAKE_DID = 0;
    ENV_Q = &w.q.inner as *const MultiQueue<RW, Pay> as usize;
    ENV_MPMC = mpmc;
    // the wake-up happens at the first yield / lock / wait the receiver performs while it has nothing
    rt::ENV_MODE = ENV_WAKE_ON_ANY;
    let mut got: Option<usize> = None;
    let mut ended = false;
    if uni {
        let mut rx = FutInnerUniRecv { reader: mk_recv(&w, i), wait: cons.arc(), prod_wait: prod.arc(), op: view_fn as fn(&Pay) -> usize };
        match rx.recv() {
            Ok(x) => got = Some(x),
            Err(RecvError) => ended = true,
        }
        mem::forget(rx);
    } else {
        let rx = FutInnerRecv { reader: mk_recv(&w, i), wait: cons.arc(), prod_wait: prod.arc() };
        match rx.recv() {
            Ok(p) => {
                got = Some(p.val);
                mem::forget(p);
            }
            Err(RecvError) => ended = true,
        }
        mem::forget(rx);
    }
    rt::ENV_MODE = ENV_OFF;
    if ENV_WAKE_DID == 1 {
        assert!(got == Some(ENV_WAKE_VAL), "C15/C08: the direct recv returns the value that arrived");
    } else {
        assert!(ENV_WAKE_DID == 2 && ended, "C15/C07: the direct recv reports the end once every sender is gone");
    }
    mem::forget(w);
}

/// Drop of a futures receiver on stream i: the plain drop contract (see s_drop_recv) plus: every
/// parked producer task is notified after the stream was removed / the consumer count dropped
/// (a send refused because of this stream can now succeed, or must now fail as disconnected: C13, C14).
pub unsafe fn s_fut_drop_recv<RW: QueueRW<Pay>>(n: usize, k: usize, mpmc: bool, uni: bool) {
    let cons = InPlaceArc::new(FutWait::with_spins(0, 0));
    let prod = InPlaceArc::new(FutWait::with_spins(0, 0));
    let w = World::<RW>::arbitrary_w(n, k, mpmc, cons.arc(), true);
    let a0 = w.a;
    let i: usize = rt::oracle_usize();
    rt::assume(i < a0.k);
    if uni {
        rt::assume(a0.ncons[i] == 1);
    }
    fut_reset();
    let (_cp, pp) = pre_park(&cons, &prod);
    let last = a0.ncons[i] == 1;
    if uni {
        let rx = FutInnerUniRecv { reader: mk_recv(&w, i), wait: cons.arc(), prod_wait: prod.arc(), op: view_fn as fn(&Pay) -> usize };
        drop(rx);
    } else {
        let rx = FutInnerRecv { reader: mk_recv(&w, i), wait: cons.arc(), prod_wait: prod.arc() };
        drop(rx);
    }
    let lv1 = w.q.tail.vf_view();
    assert!(lv1.k == if last { a0.k - 1 } else { a0.k }, "C11: the stream leaves the list exactly when its last handle goes");
    assert!((w.q.manager.vf_signal_bits() & 2 != 0) == (last && a0.k == 1), "C13: the no-reader flag is raised exactly when the last stream is removed");
    assert!(parked_len(&prod) == 0 && (!pp || ftask::NOTIFIED[3] >= 1), "C13/C14: dropping a futures receiver notifies every parked producer task (after the removal)");
    mem::forget(w);
}

/// Drop of a futures sender: the plain drop contract plus every parked consumer task is notified
/// (the end of the stream may have been reached: C07, C14).
pub unsafe fn s_fut_drop_send<RW: QueueRW<Pay>>(n: usize, k: usize, mpmc: bool) {
    let cons = InPlaceArc::new(FutWait::with_spins(0, 0));
    let prod = InPlaceArc::new(FutWait::with_spins(0, 0));
    let w = World::<RW>::arbitrary_w(n, k, mpmc, cons.arc(), true);
    let a0 = w.a;
    rt::assume(a0.writers >= 1);
    let uni = rt::oracle_bool();
    rt::assume(!uni || a0.writers == 1);
    let tx = FutInnerSend { writer: mk_send(&w, uni), wait: cons.arc(), prod_wait: prod.arc() };
    fut_reset();
    let (cp, _pp) = pre_park(&cons, &prod);
    drop(tx);
    assert!(w.q.writers.peek() == a0.writers - 1, "C07: dropping a sender unregisters exactly one sender");
    assert!(parked_len(&cons) == 0 && (!cp || ftask::NOTIFIED[2] >= 1), "C07/C14: dropping a sender notifies every parked consumer task (after the count dropped)");
    mem::forget(w);
}
