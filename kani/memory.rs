// contracts and harnesses for src/memory.rs (included as multiqueue2::memory::verif_contracts)
