// contracts and harnesses for src/memory.rs (included as multiqueue2::memory::verif_contracts)
//
// Epoch contract of the deferred-reclamation manager (S13) and ghost accessors.

use super::*;
// explicit imports: the contracts must not depend on which names the parent module happens to import
use std::mem;
use std::ptr;
use crate::verif_hooks::*;

impl MemoryManager {
    pub(crate) fn vf_epoch(&self) -> usize {
        self.epoch.peek()
    }
    pub(crate) fn vf_set_epoch(&self, e: usize) {
        self.epoch.poke(e)
    }
    #[cfg(kani)]
    pub(crate) unsafe fn vf_inner(&self) -> &mut MemoryManagerInner {
        self.mem_manager.peek()
    }
    pub(crate) unsafe fn vf_ntokens(&self) -> usize {
        self.mem_manager.peek().tokens.len()
    }
    pub(crate) unsafe fn vf_has_token(&self, t: *const MemToken) -> bool {
        let inner = self.mem_manager.peek();
        let mut i = 0;
        let mut found = false;
        while i < inner.tokens.len() {
            if inner.tokens[i] == t {
                found = true;
            }
            i += 1;
        }
        found
    }
    pub(crate) unsafe fn vf_waiting(&self) -> usize {
        self.wait_to_free.peek().len()
    }
    pub(crate) unsafe fn vf_tofree(&self) -> usize {
        self.mem_manager.peek().tofree.len()
    }
    pub(crate) unsafe fn vf_inner_epoch(&self) -> usize {
        self.mem_manager.peek().epoch
    }
    /// harness-side: give the manager's vectors their capacity before anything is stored in them
    pub(crate) unsafe fn vf_reserve(&self) {
        self.mem_manager.peek().tokens.reserve(8);
        self.mem_manager.peek().tofree.reserve(24);
        self.wait_to_free.peek().reserve(24);
    }
    pub(crate) fn vf_signal_bits(&self) -> usize {
        self.signal.vf_bits()
    }
}

impl MemoryManager {
    pub(crate) unsafe fn vf_token_epoch(t: *const MemToken) -> usize {
        (*t).epoch.peek()
    }
    pub(crate) unsafe fn vf_set_token_epoch(t: *const MemToken, e: usize) {
        (*t).epoch.poke(e)
    }
}

/// Stand-in for `ToFree::delete` in proof harnesses (installed with #[kani::stub]).
/// ASSUMED contract of delete: run the destructor of each of the `num_param` elements, then hand the
/// memory back through `alloc::deallocate`.  The real body performs exactly that through a stored
/// function pointer, which CBMC resolves against every address-taken function of the same shape
/// (core::fmt included) and does not finish; the stand-in selects the element type by comparing the
/// stored pointer with the pointers `ToFree::new::<T>` produces for the types the crate retires.
pub(crate) fn vf_delete_stub(this: ToFree) {
    unsafe {
        let f = this.freer as usize;
        if f == ToFree::new::<MemToken>(ptr::null_mut(), 0).freer as usize {
            MemoryManager::vf_free_as::<MemToken>(this.mem, this.num_param);
        } else if f == ToFree::new::<u64>(ptr::null_mut(), 0).freer as usize {
            MemoryManager::vf_free_as::<u64>(this.mem, this.num_param);
        } else if !crate::read_cursor::ReadCursor::vf_delete_dispatch(f, this.mem, this.num_param) {
            panic!("ToFree::delete stand-in: element type not known to the harness");
        }
    }
}

impl MemoryManager {
    pub(crate) unsafe fn vf_free_as<F>(pt: *mut u8, num: usize) {
        let to_free: *mut F = pt as *mut F;
        let mut i = 0;
        while i < num {
            ptr::read(to_free.add(i));
            i += 1;
        }
        alloc::deallocate(to_free, num);
    }

    pub(crate) fn vf_freer_of<T>() -> usize {
        ToFree::new::<T>(ptr::null_mut(), 0).freer as usize
    }
}

/// Arbitrary manager state for the epoch contract: `nt` registered tokens with symbolic epochs,
/// symbolic global / batch epochs, `m` retired objects in the batch awaiting reclamation, `wlen`
/// objects on the waiting list.  Objects are 8-byte allocations tracked by the allocation ledger.
pub(crate) struct MmState {
    pub m: MemoryManager,
    pub tok: [*const MemToken; 2],
    pub tok_epoch: [usize; 2],
    pub nt: usize,
    pub e: usize,
    pub ie: usize,
    pub batch: [usize; 2],
    pub nbatch: usize,
    pub wlen: usize,
}

pub(crate) unsafe fn mm_arbitrary(nt: usize, nbatch: usize, wlen: usize) -> MmState {
    ledger::ON = true;
    ledger::CAP_USED = ledger::CAP;
    let m = MemoryManager::new();
    m.vf_reserve();
    let e: usize = rt::oracle_usize();
    let ie: usize = rt::oracle_usize();
    rt::assume(e < usize::MAX - 4);
    // the batch epoch trails the global epoch by at most one bump
    rt::assume(ie == e || (e > 0 && ie == e - 1));
    m.epoch.poke(e);
    let mut st = MmState { m, tok: [ptr::null(); 2], tok_epoch: [0; 2], nt, e, ie, batch: [0; 2], nbatch, wlen };
    let mut i = 0;
    while i < nt {
        let t = st.m.get_token();
        let te: usize = rt::oracle_usize();
        (*t).epoch.poke(te);
        st.tok[i] = t;
        st.tok_epoch[i] = te;
        i += 1;
    }
    {
        let inner = st.m.mem_manager.peek();
        inner.epoch = ie;
        let mut j = 0;
        while j < nbatch {
            let o: *mut u64 = alloc::allocate(1);
            st.batch[j] = o as usize;
            inner.tofree.push(ToFree::new(o, 1));
            j += 1;
        }
    }
    {
        let wl = st.m.wait_to_free.peek();
        let mut j = 0;
        while j < wlen {
            let o: *mut u64 = alloc::allocate(1);
            wl.push(ToFree::new(o, 1));
            j += 1;
        }
    }
    st
}

unsafe fn is_live(addr: usize) -> bool {
    let mut i = 0;
    let mut r = false;
    while i < ledger::CAP_USED {
        if ledger::LIVE_ADDR[i] == addr {
            r = true;
        }
        i += 1;
    }
    r
}

/// Contract of MemoryManager::free (the only place where retired memory is ever deallocated):
///  * the object handed in is NOT deallocated by this call (it waits at least one full epoch round)
///  * the batch is deallocated iff at least one token is registered and EVERY registered token has
///    announced the current global epoch; then each batch object is deallocated exactly once, the
///    batch epoch catches up and the epoch flag is cleared; otherwise nothing is deallocated
///  * a new batch is started (waiting list becomes the batch, global epoch +1, epoch flag raised)
///    only when more than 20 objects wait and the previous batch is gone
pub(crate) unsafe fn s_mm_free(nt: usize, nbatch: usize, wlen: usize) {
    let st = mm_arbitrary(nt, nbatch, wlen);
    let sig0: usize = rt::oracle_usize();
    rt::assume(sig0 < 4);
    st.m.signal.vf_set_bits(sig0);
    let obj: *mut u64 = alloc::allocate(1);
    let live0 = ledger::LIVE_N;
    let bad0 = ledger::BAD_FREE;

    st.m.free(obj, 1);

    assert!(ledger::BAD_FREE == bad0, "C16: double free");
    assert!(is_live(obj as usize), "C16: an object is deallocated in the very call that retires it");
    let mut all = nt > 0;
    let mut i = 0;
    while i < nt {
        if st.tok_epoch[i] != st.e {
            all = false;
        }
        assert!((*st.tok[i]).epoch.peek() == st.tok_epoch[i], "free never touches a token");
        i += 1;
    }
    let mut j = 0;
    while j < nbatch {
        assert!(is_live(st.batch[j]) == !all, "C16: the batch is reclaimed exactly when every registered token has announced the current epoch");
        j += 1;
    }
    let ie1 = if all { st.e } else { st.ie };
    let started = wlen + 1 > 20 && ie1 == st.e;
    assert!(st.m.vf_inner_epoch() == ie1);
    if started {
        assert!(st.m.vf_epoch() == st.e + 1 && st.m.vf_waiting() == 0 && st.m.vf_tofree() == wlen + 1, "C17: a full waiting list becomes the next batch and the epoch is bumped");
        assert!(st.m.vf_signal_bits() & 1 == 1, "C16: handles are told to announce the new epoch");
        assert!(ledger::LIVE_N == live0 - (if all { nbatch } else { 0 }), "C16: starting a batch deallocates nothing");
    } else {
        assert!(st.m.vf_epoch() == st.e && st.m.vf_waiting() == wlen + 1);
        assert!(st.m.vf_tofree() == if all { 0 } else { nbatch });
        assert!(st.m.vf_signal_bits() & 1 == if all { 0 } else { sig0 & 1 }, "C16: the epoch flag is cleared exactly when the batch was reclaimed");
    }
    assert!(st.m.vf_signal_bits() & 2 == sig0 & 2, "C13: epoch traffic never touches the no-reader flag");
    mem::forget(st);
}

/// get_token / update_token / remove_token
pub(crate) unsafe fn s_mm_tokens(nt: usize) {
    let st = mm_arbitrary(nt, 1, 0);
    let t = st.m.get_token();
    assert!(st.m.vf_ntokens() == nt + 1 && st.m.vf_has_token(t), "C16: a new handle's token is registered");
    assert!((*t).epoch.peek() == st.e, "C16: a new token starts at the current epoch (it cannot hold references older than that)");
    let te: usize = rt::oracle_usize();
    (*t).epoch.poke(te);
    st.m.update_token(t);
    assert!((*t).epoch.peek() == st.e, "C16: update_token announces the current epoch");
    let mut i = 0;
    while i < nt {
        assert!((*st.tok[i]).epoch.peek() == st.tok_epoch[i] && st.m.vf_has_token(st.tok[i]), "other tokens untouched");
        i += 1;
    }
    let w0 = st.m.vf_waiting();
    let bad0 = ledger::BAD_FREE;
    st.m.remove_token(t);
    assert!(!st.m.vf_has_token(t) && st.m.vf_ntokens() == nt, "C16/C17: remove_token unregisters exactly that token");
    assert!(is_live(t as usize) && st.m.vf_waiting() == w0 + 1, "C16: the token's memory is retired, not freed in place");
    assert!(ledger::BAD_FREE == bad0 && is_live(st.batch[0]), "C16: nothing is reclaimed while the manager lock is held by remove_token");
    mem::forget(st);
}

/// Drop for MemoryManager: everything the manager still holds is released (C17)
pub(crate) unsafe fn s_mm_drop(nbatch: usize, wlen: usize) {
    let st = mm_arbitrary(0, nbatch, wlen);
    let MmState { m, .. } = st;
    let bad0 = ledger::BAD_FREE;
    drop(m);
    assert!(ledger::BAD_FREE == bad0, "C16: double free at teardown");
    assert!(ledger::LIVE_N == 0, "C17: retired objects still held by the manager are released when the queue goes away");
}

#[cfg(kani)]
mod proofs {
    use super::*;

    macro_rules! hm {
        ($name:ident, $unw:expr, $f:ident, $($arg:expr),*) => {
            #[kani::proof]
            #[kani::unwind($unw)]
            #[kani::stub(crate::memory::ToFree::delete, crate::memory::verif_contracts::vf_delete_stub)]
            fn $name() {
                unsafe { $f($($arg),*) }
            }
        };
    }
    hm!(s13_free_t0_b1_w0, 26, s_mm_free, 0, 1, 0);
    hm!(s13_free_t1_b1_w0, 26, s_mm_free, 1, 1, 0);
    hm!(s13_free_t2_b2_w0, 26, s_mm_free, 2, 2, 0);
    hm!(s13_free_t2_b0_w20, 26, s_mm_free, 2, 0, 20);
    hm!(s13_free_t1_b1_w20, 26, s_mm_free, 1, 1, 20);
    hm!(s13_tokens_t0, 26, s_mm_tokens, 0);
    hm!(s13_tokens_t2, 26, s_mm_tokens, 2);
    hm!(s13_drop_b1_w0, 26, s_mm_drop, 1, 0);
    hm!(s13_drop_b0_w2, 26, s_mm_drop, 0, 2);

    /// feasibility probe: deferred delete through the stored function pointer
    #[kani::proof]
    #[kani::unwind(4)]
    #[kani::stub(crate::memory::ToFree::delete, crate::memory::verif_contracts::vf_delete_stub)]
    fn s13_probe_delete() {
        unsafe {
            ledger::ON = true;
            let m = MemoryManager::new();
            let t = m.get_token();
            let obj: *mut u64 = alloc::allocate(1);
            m.vf_inner().tofree.push(ToFree::new(obj, 1));
            let e: usize = kani::any();
            m.vf_set_epoch(e);
            let te: usize = kani::any();
            MemoryManager::vf_set_token_epoch(t, te);
            let obj2: *mut u64 = alloc::allocate(1);
            let live0 = ledger::LIVE_N;
            m.free(obj2, 1);
            if te == e {
                assert!(ledger::LIVE_N == live0 - 1, "C16: retired object reclaimed once every token announced the epoch");
                assert!(m.vf_tofree() == 0);
            } else {
                assert!(ledger::LIVE_N == live0, "C16: nothing reclaimed while a token lags");
                assert!(m.vf_tofree() == 1);
            }
            assert!(ledger::BAD_FREE == 0);
            assert!(m.vf_waiting() == 1);
            mem::forget(m);
        }
    }
}
